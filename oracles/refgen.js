// Reference circom witness generator: drives rln.wasm (circom 2 wasm ABI) as a JSONL server.
// usage: node refgen.js <rln.wasm>
// request : {"id":n,"inputs":{name:[decimal strings]|decimal string,...},"want":"full"|"digest"}
// response: {"id":n,"ok":true,"head":[first 8 entries],"digest":sha256 hex of all entries as 32-byte LE,"witness":[..] (want=full)}
//           {"id":n,"ok":false,"error":"..."}  (assert failed / bad input)
const fs = require('fs');
const readline = require('readline');
const crypto = require('crypto');
const wasmPath = process.argv[2];
function fnv(str){ let h = 0xCBF29CE484222325n; for (let i=0;i<str.length;i++){ h ^= BigInt(str.charCodeAt(i)); h = (h * 0x100000001B3n) & 0xFFFFFFFFFFFFFFFFn; } return h; }
(async () => {
  const code = fs.readFileSync(wasmPath);
  let errs = [];
  let inst;
  const imports = { runtime: {
    exceptionHandler: (c) => { throw new Error('EXC' + c + ':' + errs.join('|')); },
    printErrorMessage: () => { let s=''; let c; while ((c = inst.exports.getMessageChar()) !== 0) s += String.fromCharCode(c); errs.push(s); },
    writeBufferMessage: () => { let c; while ((c = inst.exports.getMessageChar()) !== 0) {} },
    showSharedRWMemory: () => {},
  }};
  const mod = await WebAssembly.compile(code);
  inst = await WebAssembly.instantiate(mod, imports);
  const n32 = inst.exports.getFieldNumLen32();
  inst.exports.getRawPrime();
  let prime = 0n; for (let j=n32-1;j>=0;j--) prime = (prime << 32n) | BigInt(inst.exports.readSharedRWMemory(j) >>> 0);
  const wsize = inst.exports.getWitnessSize();
  console.log(JSON.stringify({hello:true, n32, prime: prime.toString(), witness_size: wsize, input_size: inst.exports.getInputSize(), version:[inst.exports.getVersion(), inst.exports.getMinorVersion(), inst.exports.getPatchVersion()], wasm_sha256: crypto.createHash('sha256').update(code).digest('hex'), node: process.version}));
  const rl = readline.createInterface({input: process.stdin, crlfDelay: Infinity});
  for await (const line of rl) {
    if (!line.trim()) continue;
    const req = JSON.parse(line);
    errs = [];
    try {
      inst.exports.init(1);
      for (const k of Object.keys(req.inputs)) {
        const h = fnv(k); const msb = Number(h >> 32n), lsb = Number(h & 0xFFFFFFFFn);
        const arr = Array.isArray(req.inputs[k]) ? req.inputs[k] : [req.inputs[k]];
        const expect = inst.exports.getInputSignalSize(msb, lsb);
        if (expect < 0) throw new Error('NOSIG:' + k);
        if (expect !== arr.length) throw new Error('BADLEN:' + k + ':' + expect + ':' + arr.length);
        for (let i=0;i<arr.length;i++) {
          let v = BigInt(arr[i]);
          if (v < 0n || v >= prime) throw new Error('NONCANONICAL:' + k);
          for (let j=0;j<n32;j++) inst.exports.writeSharedRWMemory(j, Number((v >> BigInt(32*j)) & 0xFFFFFFFFn));
          inst.exports.setInputSignal(msb, lsb, i);
        }
      }
      const hash = crypto.createHash('sha256');
      const w = []; const head = [];
      const buf = Buffer.alloc(4*n32);
      for (let i=0;i<wsize;i++) {
        inst.exports.getWitness(i);
        let v = 0n;
        for (let j=0;j<n32;j++) { const x = inst.exports.readSharedRWMemory(j) >>> 0; buf.writeUInt32LE(x, 4*j); }
        hash.update(buf);
        if (req.want === 'full' || i < 8) { for (let j=n32-1;j>=0;j--) v = (v << 32n) | BigInt(buf.readUInt32LE(4*j)); if (i < 8) head.push(v.toString()); if (req.want === 'full') w.push(v.toString()); }
      }
      const out = {id: req.id, ok: true, head, digest: hash.digest('hex')};
      if (req.want === 'full') out.witness = w;
      console.log(JSON.stringify(out));
    } catch (e) {
      console.log(JSON.stringify({id: req.id, ok: false, error: String(e.message).slice(0,300)}));
      // a trapped instance may be in an inconsistent state: re-instantiate
      inst = await WebAssembly.instantiate(mod, imports);
    }
  }
})();
