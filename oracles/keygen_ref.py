from poseidon_ref import keccak256, poseidon, P
M32=0xffffffff
def rotl(x,n): return ((x<<n)&M32)|(x>>(32-n))
def qr(s,a,b,c,d):
    s[a]=(s[a]+s[b])&M32; s[d]=rotl(s[d]^s[a],16)
    s[c]=(s[c]+s[d])&M32; s[b]=rotl(s[b]^s[c],12)
    s[a]=(s[a]+s[b])&M32; s[d]=rotl(s[d]^s[a],8)
    s[c]=(s[c]+s[d])&M32; s[b]=rotl(s[b]^s[c],7)
def chacha_block(key_words, counter, stream=0):
    init=[0x61707865,0x3320646e,0x79622d32,0x6b206574]+key_words+[counter&M32,(counter>>32)&M32,stream&M32,(stream>>32)&M32]
    s=list(init)
    for _ in range(10):
        qr(s,0,4,8,12);qr(s,1,5,9,13);qr(s,2,6,10,14);qr(s,3,7,11,15)
        qr(s,0,5,10,15);qr(s,1,6,11,12);qr(s,2,7,8,13);qr(s,3,4,9,14)
    return [(s[i]+init[i])&M32 for i in range(16)]
class ChaCha20Rng:
    def __init__(self, seed32):
        self.key=[int.from_bytes(seed32[4*i:4*i+4],'little') for i in range(8)]
        self.ctr=0; self.buf=[]
    def u32(self):
        if not self.buf:
            self.buf=chacha_block(self.key,self.ctr); self.ctr+=1
        return self.buf.pop(0)
    def u64(self):
        lo=self.u32(); hi=self.u32(); return lo|(hi<<32)
RINV=pow(1<<256,-1,P)
def fr_rand(rng):
    while True:
        limbs=[rng.u64() for _ in range(4)]
        limbs[3]&=(1<<62)-1
        raw=sum(l<<(64*i) for i,l in enumerate(limbs))
        if raw<P: return raw*RINV%P
def seeded_keygen(seed):
    rng=ChaCha20Rng(keccak256(seed)); s=fr_rand(rng); return s, poseidon([s])
def extended_seeded_keygen(seed):
    rng=ChaCha20Rng(keccak256(seed)); t=fr_rand(rng); n=fr_rand(rng); s=poseidon([t,n]); return t,n,s,poseidon([s])
if __name__=='__main__':
    s,c=seeded_keygen(bytes(range(10)))
    print(hex(s),hex(c))
    assert s==0x766ce6c7e7a01bdf5b3f257616f603918c30946fa23480f2859c597817e6716 and c==0xbf16d2b5c0d6f9d9d561e05bfca16a81b4b873bb063508fae360d8c74cef51f
    s,c=seeded_keygen(b"A seed phrase example")
    assert s==0x20df38f3f00496f19fe7c6535492543b21798ed7cb91aebe4af8012db884eda3 and c==0x1223a78a5d66043a7f9863e14507dc80720a5602b2a894923e5b5147d5a9c325
    print('seeded keygen reference matches both pinned vectors'); print([hex(v) for v in extended_seeded_keygen(bytes(range(10)))])
