# Poseidon reference written from the HADES/Poseidon paper reference script description.
P = 21888242871839275222246405745257275088548364400416034343698204186575808495617
N = 254
RP_TABLE = {2:56,3:57,4:56,5:60,6:60,7:63,8:64,9:63}
RF = 8

class Grain:
    def __init__(self, t, rf, rp):
        bits = []
        def put(v, n): bits.extend([(v >> (n-1-i)) & 1 for i in range(n)])
        put(1, 2)      # field = 1 (prime field)
        put(0, 4)      # sbox = x^alpha
        put(N, 12); put(t, 12); put(rf, 10); put(rp, 10)
        bits.extend([1]*30)
        assert len(bits) == 80
        self.s = bits
        for _ in range(160): self._step()
    def _step(self):
        s = self.s
        b = s[62] ^ s[51] ^ s[38] ^ s[23] ^ s[13] ^ s[0]
        s.pop(0); s.append(b)
        return b
    def bit(self):
        while True:
            a = self._step(); b = self._step()
            if a: return b
    def bits_int(self, n):
        v = 0
        for _ in range(n): v = (v << 1) | self.bit()
        return v
    def fe_reject(self):
        while True:
            v = self.bits_int(N)
            if v < P: return v
    def fe_mod(self):
        return self.bits_int(N) % P

_cache = {}
def params(t):
    if t in _cache: return _cache[t]
    rp = RP_TABLE[t]
    g = Grain(t, RF, rp)
    C = [g.fe_reject() for _ in range((RF+rp)*t)]
    xs = [g.fe_mod() for _ in range(t)]
    ys = [g.fe_mod() for _ in range(t)]
    M = [[pow((xs[i]+ys[j]) % P, P-2, P) for j in range(t)] for i in range(t)]
    _cache[t] = (C, M, rp)
    return _cache[t]

def poseidon(inputs):
    t = len(inputs)+1
    C, M, rp = params(t)
    st = [0] + [x % P for x in inputs]
    for r in range(RF+rp):
        st = [(st[i] + C[r*t+i]) % P for i in range(t)]
        if r < RF//2 or r >= RF//2 + rp:
            st = [pow(x, 5, P) for x in st]
        else:
            st[0] = pow(st[0], 5, P)
        st = [sum(M[i][j]*st[j] for j in range(t)) % P for i in range(t)]
    return st[0]

# Keccak-256 from the Keccak specification
RC = [0x0000000000000001,0x0000000000008082,0x800000000000808A,0x8000000080008000,0x000000000000808B,0x0000000080000001,0x8000000080008081,0x8000000000008009,0x000000000000008A,0x0000000000000088,0x0000000080008009,0x000000008000000A,0x000000008000808B,0x800000000000008B,0x8000000000008089,0x8000000000008003,0x8000000000008002,0x8000000000000080,0x000000000000800A,0x800000008000000A,0x8000000080008081,0x8000000000008080,0x0000000080000001,0x8000000080008008]
ROT = [[0,36,3,41,18],[1,44,10,45,2],[62,6,43,15,61],[28,55,25,21,56],[27,20,39,8,14]]
MASK = (1<<64)-1
def rol(x,n): n%=64; return ((x<<n)|(x>>(64-n)))&MASK if n else x
def keccak_f(A):
    for rnd in range(24):
        Cc=[A[x][0]^A[x][1]^A[x][2]^A[x][3]^A[x][4] for x in range(5)]
        D=[Cc[(x-1)%5]^rol(Cc[(x+1)%5],1) for x in range(5)]
        A=[[A[x][y]^D[x] for y in range(5)] for x in range(5)]
        B=[[0]*5 for _ in range(5)]
        for x in range(5):
            for y in range(5):
                B[y][(2*x+3*y)%5]=rol(A[x][y],ROT[x][y])
        A=[[B[x][y]^((~B[(x+1)%5][y])&B[(x+2)%5][y]) for y in range(5)] for x in range(5)]
        A[0][0]^=RC[rnd]
    return A
def keccak256(data: bytes) -> bytes:
    rate=136
    p=bytearray(data); p.append(0x01)
    while len(p)%rate: p.append(0)
    p[-1]|=0x80
    A=[[0]*5 for _ in range(5)]
    for off in range(0,len(p),rate):
        blk=p[off:off+rate]
        for i in range(rate//8):
            x,y=i%5,i//5
            A[x][y]^=int.from_bytes(blk[8*i:8*i+8],'little')
        A=keccak_f(A)
    out=b''
    for i in range(4):
        x,y=i%5,i//5
        out+=A[x][y].to_bytes(8,'little')
    return out
def hash_to_field(b): return int.from_bytes(keccak256(b),'little') % P

if __name__=='__main__':
    import time
    t0=time.time()
    assert keccak256(b'').hex()=='c5d2460186f7233c927e7db2dcc703c0e500b653ca82273b7bfad8045d85a470', keccak256(b'').hex()
    assert keccak256(b'abc').hex()=='4e03657aea45a94fc7d47ba826c8d667c0d1e6e33a64a036ec44f58fa12d6c45'
    print('keccak ok')
    v=poseidon([1,2]); print(hex(v)); assert v==0x115cc0f5e7d690413df64c6b9662e9cf2a3617f2743245519e19607a4417189a
    assert poseidon([0])==19014214495641488759237505126948346942972912379615652741039992445865937985820
    assert poseidon([1])==18586133768512220936620570745912940619677854269274689475585506675881198879027
    v4=poseidon([1,2,3,4]); print(hex(v4)); assert v4==0x299c867db6c1fdd79dcefa40e4510b9837e60ebb1ce0663dbaa525df65250465
    # rln.wasm anchors from the probe: secret 12345, limit 100, id 0, e 7, x 5
    a1=poseidon([12345,7,0]); print('nullifier', poseidon([a1]), 'y', (12345+5*a1)%P)
    for n in range(1,9): print(n, poseidon(list(range(1,n+1))))
    print('t', time.time()-t0)
