#!/usr/bin/env python3
"""Offline checker for C09: recomputes every logged Poseidon / hash-to-field record with the
pure-Python reference (own Grain LFSR constants, own Keccak-f[1600]) and reports mismatches.
usage: check_hash_log.py <log.jsonl> <out.json> [max_records]"""
import json, sys, time, os
from multiprocessing import Pool
sys.path.insert(0, os.path.dirname(os.path.abspath(__file__)))
import poseidon_ref as R

def anchors():
    bad = []
    if R.keccak256(b'').hex() != 'c5d2460186f7233c927e7db2dcc703c0e500b653ca82273b7bfad8045d85a470': bad.append('keccak empty')
    if R.keccak256(b'abc').hex() != '4e03657aea45a94fc7d47ba826c8d667c0d1e6e33a64a036ec44f58fa12d6c45': bad.append('keccak abc')
    if R.poseidon([1, 2]) != 0x115cc0f5e7d690413df64c6b9662e9cf2a3617f2743245519e19607a4417189a: bad.append('poseidon [1,2]')
    if R.poseidon([1, 2, 3, 4]) != 0x299c867db6c1fdd79dcefa40e4510b9837e60ebb1ce0663dbaa525df65250465: bad.append('poseidon [1..4]')
    return bad

def check(line):
    r = json.loads(line)
    if r['k'] == 'poseidon':
        want = R.poseidon([int(x) for x in r['in']])
        got = int(r['out']) if 'out' in r else int.from_bytes(bytes.fromhex(r['out_hex']), 'little')
        key = 'poseidon|n=%d|%s' % (len(r['in']), r['entry'])
        ok = (want == got) and ('out_hex' not in r or len(r['out_hex']) == 64)
        return key, ok, r if not ok else None
    else:
        b = bytes.fromhex(r['in_hex'])
        want = R.hash_to_field(b)
        got = int(r['out'])
        return 'h2f|len=%d' % len(b), want == got, r if want != got else None

def main():
    log, out = sys.argv[1], sys.argv[2]
    cap = int(sys.argv[3]) if len(sys.argv) > 3 else 10**9
    t0 = time.time()
    res = {"evaluations": 0, "strata_all": [], "violations": [], "inconclusive": {}, "counters": {}, "samples": [], "notes": {},
           "rule": "offline: every logged (entry point, inputs, output) record recomputed by the pure-Python reference",
           "assumptions": ["pure-Python Poseidon/Keccak written from the specifications (oracles/poseidon_ref.py)"]}
    bad = anchors()
    if bad:
        res["inconclusive"]["python reference anchors failed: %s" % bad] = 1
        json.dump(res, open(out, 'w')); return
    if not os.path.exists(log):
        res["inconclusive"]["no log file"] = 1
        json.dump(res, open(out, 'w')); return
    lines = [l for l in open(log) if l.strip()][:cap]
    strata = set(); nbad = 0; details = {}
    with Pool(min(16, os.cpu_count() or 4)) as pool:
        for key, ok, rec in pool.imap_unordered(check, lines, chunksize=64):
            res["evaluations"] += 1
            strata.add(key)
            if not ok:
                sig = "offline:%s:mismatch" % key.split('|')[0]
                d = details.setdefault(sig, {"sig": sig, "count": 0, "details": []})
                d["count"] += 1
                if len(d["details"]) < 3: d["details"].append(rec)
    res["violations"] = list(details.values())
    res["strata_all"] = sorted(strata)
    res["counters"]["records_rechecked_offline"] = res["evaluations"]
    res["notes"]["offline_secs"] = round(time.time() - t0, 1)
    if lines:
        res["samples"].append({"offline_record": json.loads(lines[0])})
    json.dump(res, open(out, 'w'))

if __name__ == '__main__':
    main()
