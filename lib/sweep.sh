#!/bin/bash
# usage: lib/sweep.sh <tier> <seed> [props...]   -- runs checks one after another, prints a summary line each
tier=$1; seed=$2; shift 2
props=${@:-C01 C02 C03 C04 C05 C06 C07 C08 C09 C10 C11 C12 C13 C14 C15 C16 C17 C18 C19 C20}
for p in $props; do
  s=$(date +%s)
  out=$(VERIF_SEED=$seed ./check $p $tier 2>/dev/null | grep -E "^\[check\]|^VIOLATION|^INCONCLUSIVE" | cut -c1-300)
  echo "$out"
  echo "   ($p $tier seed=$seed took $(( $(date +%s) - s )) s)"
done
