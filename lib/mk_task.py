#!/usr/bin/env python3
"""usage: mk_task.py <round tag> <prop id> '<focus hint>'  -- creates the scratch worktree /tmp/mut/<tag>-<id> of /repo and
writes TASK.md (property text + instructions) for an independent sub-agent. Nothing from /verif goes into it except the
text of the property."""
import json, os, subprocess, sys
tag, pid, hint = sys.argv[1], sys.argv[2], sys.argv[3]
props = {json.loads(l)['id']: json.loads(l) for l in open('/verif/properties.jsonl')}
wt = f"/tmp/mut/{tag}-{pid}"
os.makedirs("/tmp/mut", exist_ok=True)
if not os.path.exists(wt):
    subprocess.check_call(["git", "-C", "/repo", "worktree", "add", "--detach", wt, "HEAD"], stdout=subprocess.DEVNULL, stderr=subprocess.DEVNULL)
p = props[pid]
text = f"""# Task

You work ONLY inside this scratch git worktree of the Rust repository vacp2p/zerokit: {wt}
(never touch or read /repo or /verif; there is no network: always pass --offline to cargo and set
CARGO_TARGET_DIR={wt}/target).

The repository is a zero-knowledge toolkit: Rate-Limiting Nullifier (RLN) proofs (crate `rln`), Poseidon hashing and
Merkle trees (crate `zerokit_utils` in utils/), a circom witness-graph evaluator (rln/src/circuit/iden3calc*), C FFI
(rln/src/ffi.rs).

## The property (it holds for the code as it is)

**{p['id']} — {p.get('title','')}**

{p.get('statement') or p.get('text')}

## What to produce

A realistic change to the LIBRARY source (rln/src/** or utils/src/**, not tests, not Cargo features) that BREAKS this
property while

1. compiling (default features; if you touch feature-gated code, that feature set too),
2. passing the existing tests unchanged: `cargo test -p rln --offline` (and `cargo test -p zerokit_utils --offline`
   if you touch utils/). `rln::ffi::test::test_groth16_proofs_performance_ffi` is known flaky: ignore it.
3. looking like something a developer could plausibly commit (an optimisation, refactor, hardening, caching, tidy-up),
4. needing something SPECIFIC to manifest, not something ordinary use exposes at once. Focus for this task:
   {hint}

Also write a demonstration: one Rust integration-test file `demo_test.rs` that can be copied to `rln/tests/` (or
`utils/tests/`) and run with `cargo test -p rln --offline --test <file stem>`; it must FAIL with your change and PASS
without it. (The library may be built with `RUSTFLAGS` unset, i.e. no special cfg.)

## Deliverables, in {wt}/MUTATION/

* `patch.diff` — `git diff -- rln/src utils/src > MUTATION/patch.diff` (library change only; must apply with `git apply` on a clean tree)
* `demo/demo_test.rs`, `demo/RUN.md` (how to run)
* `meta.json` with keys: property ("{pid}"), summary (what was changed and why it breaks the property), needs_to_manifest
  (what exactly is needed to see it), files_changed (list), demo_crate ("rln" or "utils"), demo_cmd, existing_tests_run
  (what you ran and the result), demo_fails_with_patch (bool), demo_passes_without_patch (bool).

Verify all three facts yourself (demo fails with patch, existing tests pass with patch, demo passes without patch).
When done leave the worktree CLEAN: patch not applied (`git checkout -- rln utils`), no demo file left under tests/.
Debug builds of the test-suite take a few minutes; be patient, and run cargo with a generous timeout.
Final answer: at most 8 lines (what you changed, what is needed to see it, whether the three facts were verified).
"""
open(f"{wt}/TASK.md", "w").write(text)
print(wt)
