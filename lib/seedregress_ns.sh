#!/bin/bash
# usage: lib/seedregress_ns.sh <parallel jobs> [name-filter regex]  -- like seedregress.sh but through seedtest_ns.sh (mount
# namespaces; /repo untouched), several changes at a time. Appends/updates seeded/REGRESSION.txt.
jobs=$1; filt=${2:-.}
cd /verif || exit 2
out=seeded/REGRESSION.txt
tmp=$(mktemp -d)
one() {
  d=$1; n=$(basename $d)
  p=$(python3 -c "import json;m=json.load(open('$d/meta.json'));print(m.get('regress_with', m['breaks_property'][:3]))")
  res=$(/verif/lib/seedtest_ns.sh rg-$n /verif/$d/patch.diff quick $p 2>&1 | grep -v vanished)
  sigs=$(echo "$res" | grep -c "^VIOLATION")
  rc=$(echo "$res" | grep -oE "exit [0-9]" | head -1)
  first=$(echo "$res" | grep "^VIOLATION" | head -1 | sed 's/.*sig=//' | cut -c1-90)
  if [ "$sigs" -gt 0 ]; then v=CAUGHT; else v="NOT-CAUGHT($rc)"; fi
  echo "$n $p $v violations=$sigs first=$first"
  rm -rf /tmp/seedns/verif-rg-$n
}
export -f one
ls -d seeded/*/ | sed 's|/$||' | grep -E "$filt" | xargs -P $jobs -I{} bash -c 'one {}' | tee $tmp/new
if [ -f $out ]; then grep -v -F -f <(cut -d" " -f1 $tmp/new) $out > $tmp/keep; cat $tmp/keep $tmp/new | sort > $out; else sort $tmp/new > $out; fi
rm -rf $tmp
