#!/bin/bash
# usage: lib/seedregress.sh [name-filter]  -- applies every kept seeded change to /repo in turn, runs the quick check of
# the property it breaks (or of the check named in meta.regress_with for configuration-specific changes), reverts, and records whether a VIOLATION was reported (seeded/REGRESSION.txt).
cd /verif || exit 2
out=seeded/REGRESSION.txt
: > $out.tmp
for d in seeded/*/; do
  n=$(basename $d)
  [ -n "$1" ] && [[ "$n" != *$1* ]] && continue
  p=$(python3 -c "import json;m=json.load(open('$d/meta.json'));print(m.get('regress_with', m['breaks_property'][:3]))")
  res=$(./lib/seedtest.sh /verif/$d/patch.diff quick $p 2>&1)
  sigs=$(echo "$res" | grep -c "^VIOLATION")
  rc=$(echo "$res" | grep -oE "exit [0-9]" | head -1)
  first=$(echo "$res" | grep "^VIOLATION" | head -1 | sed 's/.*sig=//' | cut -c1-90)
  if [ "$sigs" -gt 0 ]; then v=CAUGHT; else v="NOT-CAUGHT($rc)"; fi
  echo "$n $p $v violations=$sigs first=$first" | tee -a $out.tmp
done
if [ -n "$1" ] && [ -f $out ]; then grep -v -F -f <(cut -d" " -f1 $out.tmp) $out > $out.keep; cat $out.keep $out.tmp | sort > $out; rm -f $out.keep $out.tmp; else mv $out.tmp $out; fi
