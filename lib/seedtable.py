#!/usr/bin/env python3
"""Prints the markdown table of seeded changes (DESIGN.md section 12) from seeded/*/meta.json."""
import json, glob, os
rows = []
for d in sorted(glob.glob(os.path.join(os.path.dirname(__file__), "..", "seeded", "*"))):
    if not os.path.isdir(d):
        continue
    m = json.load(open(os.path.join(d, "meta.json")))
    name = os.path.basename(d)
    caught = m.get("caught_by", {})
    cells = []
    for k, v in caught.items():
        v = v.replace("|", "/")
        cells.append("**%s**: %s" % (k, v))
    rows.append("| `%s` | %s | %s | %s |" % (name, m.get("breaks_property", m.get("property", "?")),
                                               (m.get("summary", "") or "")[:300].replace("|", "/").replace("\n", " "),
                                               "<br>".join(cells)))
print("| seeded change | breaks | what was changed (author's summary) | which checks caught it |")
print("|---|---|---|---|")
print("\n".join(rows))
