#!/usr/bin/env python3
"""usage: keep_seed.py <worktree id under /tmp/mut> <seed name> '<json with extra meta>'
Copies MUTATION/{patch.diff,demo,meta.json} of a confirmed seeded change to /verif/seeded/<seed name>/ and
adds what was run on our side."""
import json, os, shutil, sys
wid, name, extra = sys.argv[1], sys.argv[2], json.loads(sys.argv[3])
src = "/tmp/mut/%s/MUTATION" % wid
dst = "/verif/seeded/%s" % name
shutil.rmtree(dst, ignore_errors=True)
os.makedirs(dst)
shutil.copy(os.path.join(src, "patch.diff"), dst)
shutil.copytree(os.path.join(src, "demo"), os.path.join(dst, "demo"))
meta = json.load(open(os.path.join(src, "meta.json")))
meta["author"] = "independent sub-agent given only the property text and a scratch worktree"
meta.update(extra)
json.dump(meta, open(os.path.join(dst, "meta.json"), "w"), indent=1)
print("kept", dst)
