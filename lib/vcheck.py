"""Driver logic of ./check (see that file for the contract)."""
import fcntl
import hashlib
import json, re
import os
import shutil
import signal
import subprocess
import sys
import time

LEVELS = {}  # property -> level category, filled from plans.PLANS


class Inconclusive(Exception):
    pass


class Ctx:
    def __init__(self, verif, repo, harness, prop, tier, seed):
        self.verif, self.repo, self.harness = verif, repo, harness
        self.prop, self.tier, self.seed = prop, tier, seed
        self.work = os.path.join(verif, "work")
        self.bindir = os.path.join(self.work, "bin")
        os.makedirs(self.bindir, exist_ok=True)
        self.run_dir = os.path.join(self.work, "run-%s-%s-%d-%d" % (prop, tier, seed, os.getpid()))
        shutil.rmtree(self.run_dir, ignore_errors=True)
        os.makedirs(self.run_dir)
        self.tmp = os.path.join(self.run_dir, "tmp")
        os.makedirs(self.tmp)
        self.results = []
        self.inconclusive = []
        self.build_log = []
        self.extra = {}
        self.t0 = time.time()

    def cleanup(self):
        shutil.rmtree(self.run_dir, ignore_errors=True)

    # ------------------------------------------------------------------ building
    def base_env(self):
        env = dict(os.environ)
        env["CARGO_NET_OFFLINE"] = "true"
        env["TMPDIR"] = self.tmp
        env["VERIF_DIR"] = self.verif
        env["VERIF_REPO"] = self.repo
        env.pop("RUSTFLAGS", None)
        if os.environ.get("VERIF_COVERAGE"):
            env["LLVM_PROFILE_FILE"] = os.path.join(os.environ["VERIF_COVERAGE"], "%p-%8m.profraw")
        return env

    def build(self, config, san=None):
        """Build vh for a feature configuration (and optional sanitizer) from /repo's working tree.
        Returns path of the binary. Raises Inconclusive on build failure (BuildFailed carries log)."""
        feats = {
            "pm": "pm",
            "full": "full",
            "optimal": "optimal",
            "arkzkey": "pm,arkzkey",
            "stateless": "stateless",
        }[config]
        name = "vh-%s%s" % (config, ("-" + san) if san else "")
        if os.environ.get("VERIF_COVERAGE") and san is None:
            name += "-cov"
        out = os.path.join(self.bindir, name)
        lock_path = os.path.join(self.work, "build.lock")
        env = self.base_env()
        # keep the harness lock file in sync with the repository's
        lock_src = os.path.join(self.repo, "Cargo.lock")
        with open(lock_path, "w") as lf:
            fcntl.flock(lf, fcntl.LOCK_EX)
            hl = os.path.join(self.harness, "Cargo.lock")
            if not os.path.exists(hl):
                shutil.copy(lock_src, hl)
            cmd = ["cargo"]
            tdir = os.path.join(self.harness, "target")
            rustflags = "--cfg zerokit_verif"
            if san == "asan":
                cmd += ["+nightly"]
                rustflags += " -Zsanitizer=address -Cforce-frame-pointers=yes"
                tdir = os.path.join(self.harness, "target-asan")
            elif san == "tsan":
                cmd += ["+nightly"]
                rustflags += " -Zsanitizer=thread"
                tdir = os.path.join(self.harness, "target-tsan")
            elif san == "ovf":
                # stable toolchain, optimised, but with the integer-overflow checks every `cargo test` / debug build
                # of the library has: an overflow that silently wraps in the default release build panics here
                rustflags += " -C overflow-checks=on"
                tdir = os.path.join(self.harness, "target-ovf")
            cov = os.environ.get("VERIF_COVERAGE")
            if cov and san is None:
                # measurement mode (lib/coverage.sh): source-based coverage of /repo under the workloads; not a check
                # only the two repository crates are instrumented (instrumented arkworks/rayon code is ~50x slower)
                cmd += ["+nightly", "-Zprofile-rustflags",
                        "--config", 'profile.release.package.rln.rustflags=["-Cinstrument-coverage"]',
                        "--config", 'profile.release.package.zerokit_utils.rustflags=["-Cinstrument-coverage"]',
                        "--config", 'profile.release.package.vh.rustflags=["-Cinstrument-coverage"]']
                tdir = os.path.join(self.harness, "target-cov")
            cmd += ["build", "--release", "--offline", "--no-default-features", "--features", feats,
                    "--manifest-path", os.path.join(self.harness, "Cargo.toml"), "--target-dir", tdir]
            if san in ("asan", "tsan"):
                cmd += ["--target", "x86_64-unknown-linux-gnu"]
            if san == "tsan":
                cmd += ["-Zbuild-std"]
            env["RUSTFLAGS"] = rustflags
            if cov and san is None:
                # instrumented build scripts / proc macros must not drop default_*.profraw files into /repo
                env["LLVM_PROFILE_FILE"] = os.path.join(self.work, "cov-build-%p.profraw")
            t = time.time()
            p = subprocess.run(cmd, env=env, stdout=subprocess.PIPE, stderr=subprocess.STDOUT, text=True)
            self.build_log.append({"config": config, "san": san, "ok": p.returncode == 0, "secs": round(time.time() - t, 1)})
            if p.returncode != 0:
                tail = "\n".join(p.stdout.splitlines()[-60:])
                raise BuildFailed(config, san, tail)
            built = os.path.join(tdir, "x86_64-unknown-linux-gnu" if san in ("asan", "tsan") else "", "release", "vh")
            shutil.copy2(built, out + ".tmp")
            os.replace(out + ".tmp", out)
        return out

    # ------------------------------------------------------------------ running
    def run_vh(self, binary, sub, extra_args=(), env_extra=None, timeout=3600, tag=None, allow_fail=False):
        tag = tag or sub
        out = os.path.join(self.run_dir, "result-%s-%d.json" % (tag.replace("/", "_"), len(self.results)))
        env = self.base_env()
        env["VH_RUN_DIR"] = self.run_dir
        env["VH_SELF"] = binary
        if env_extra:
            env.update(env_extra)
        cmd = [binary, sub, "--tier", self.tier, "--seed", str(self.seed), "--out", out] + list(extra_args)
        t = time.time()
        try:
            p = subprocess.run(cmd, env=env, stdout=subprocess.PIPE, stderr=subprocess.PIPE, text=True,
                               timeout=timeout, errors="replace")
        except subprocess.TimeoutExpired:
            self.inconclusive.append("watchdog: %s did not finish in %ds" % (tag, timeout))
            return None
        sys.stderr.write(p.stderr[-4000:])
        if p.returncode != 0 or not os.path.exists(out):
            if allow_fail:
                return {"_rc": p.returncode, "_stderr": p.stderr[-4000:], "_stdout": p.stdout[-4000:]}
            self.inconclusive.append("harness step %s exited with %s: %s" % (tag, p.returncode, p.stderr[-600:]))
            # Properties about total functions (reference equality on every valid input): the workload hands the code
            # under test valid inputs only, so a panic raised *inside the repository's sources* that kills the
            # harness is a counterexample (the function has no value there), not a machinery failure. For all other
            # properties a dying harness stays inconclusive.
            # Properties whose statement excludes aborts on hostile input (C12, C13): the workload hands untrusted bytes
            # to the entry points inside catch_unwind, so a harness process that is killed by SIGABRT / SIGSEGV / SIGILL /
            # SIGBUS (an allocation failure on an attacker-declared length, a stack overflow, an abort in a destructor)
            # has observed exactly what the statement forbids. SIGKILL (the kernel's OOM killer, the watchdog) stays
            # inconclusive.
            if p.returncode in (-6, -11, -4, -7) and self.prop in ABORT_FREEDOM_PROPS:
                tail = [l for l in p.stderr.splitlines() if l.strip()][-6:]
                what = "allocation-failure" if "memory allocation of" in p.stderr else "signal%d" % (-p.returncode)
                r = {"evaluations": 0, "strata_all": [], "samples": [], "inconclusive": {}, "counters": {}, "notes": {},
                     "violations": [{"sig": "process-aborted-on-untrusted-input:%s" % what, "count": 1,
                                     "details": [{"signal": -p.returncode, "stderr_tail": tail, "step": tag,
                                                  "note": "the harness process died inside a guarded call of an entry point fed with untrusted bytes; the rest of the workload was not executed"}]}],
                     "_step": tag, "_secs": round(time.time() - t, 1)}
                self.results.append(r)
                return None
            mo = re.search(r"\[vh\] harness panic: (.*) at (/repo/(?:rln|utils)/src/[^\s:]+)", p.stderr)
            if p.returncode == 101 and mo and self.prop in TOTAL_FUNCTION_PROPS:
                f = mo.group(2).split("/src/", 1)[1]
                r = {"evaluations": 0, "strata_all": [], "samples": [], "inconclusive": {}, "counters": {}, "notes": {},
                     "violations": [{"sig": "sut-panic-on-valid-input:%s" % f, "count": 1,
                                     "details": [{"panic": mo.group(1)[:400], "at": mo.group(2), "step": tag,
                                                  "note": "the harness process died in an unguarded call of the code under test; the rest of the workload was not executed"}]}],
                     "_step": tag, "_secs": round(time.time() - t, 1)}
                self.results.append(r)
            return None
        r = json.load(open(out))
        r["_step"] = tag
        r["_secs"] = round(time.time() - t, 1)
        self.results.append(r)
        return r

    def run_sanitized(self, binary, sub, extra_args=(), env_extra=None, timeout=3600, tag=None, kind="asan", wrapper=None):
        """Run a harness step under a sanitizer (instrumented binary) or a wrapper tool (valgrind).
        A sanitizer/tool report or a death by signal is a violation; the step's own result file (if the
        process got that far) is merged as usual."""
        tag = tag or (sub + "-" + kind)
        out = os.path.join(self.run_dir, "result-%s-%d.json" % (tag.replace("/", "_"), len(self.results)))
        env = self.base_env()
        env["VH_RUN_DIR"] = self.run_dir
        env["VH_SELF"] = binary
        if env_extra:
            env.update(env_extra)
        cmd = (wrapper or []) + [binary, sub, "--tier", self.tier, "--seed", str(self.seed), "--out", out] + list(extra_args)
        t = time.time()
        try:
            p = subprocess.run(cmd, env=env, stdout=subprocess.PIPE, stderr=subprocess.PIPE, text=True, timeout=timeout, errors="replace")
        except subprocess.TimeoutExpired:
            self.inconclusive.append("watchdog: %s did not finish in %ds" % (tag, timeout))
            return None
        err = p.stderr
        # the same-kind bursts of C18 end the process with this marker when calls wait for each other
        mo = re.search(r"\[vh\] NO-PROGRESS kind=(\S+) (.*)", err)
        if p.returncode == 86 and mo:
            self.results.append({"_step": tag, "evaluations": 0, "strata_all": [], "samples": [], "counters": {}, "notes": {},
                                 "violations": [{"sig": "shared-instance:no-progress:%s" % mo.group(1), "count": 1,
                                                 "details": [{"monitor": mo.group(0), "note": "barrier-released threads making the same call on one shared instance; no call completed for 120 s while calls were outstanding (deadlock); the rest of the workload was not executed"}]}],
                                 "_secs": round(time.time() - t, 1)})
            return None
        reports = []
        lines = err.splitlines()
        for i, l in enumerate(lines):
            if "ERROR: AddressSanitizer" in l or "WARNING: ThreadSanitizer" in l or "ERROR: LeakSanitizer" in l or "Invalid read" in l or "Invalid write" in l or "uninitialised value" in l.lower():
                reports.append("\n".join(lines[i:i + 40]))
        res = {"_step": tag, "evaluations": 0, "strata_all": [], "violations": [], "samples": [], "counters": {}, "notes": {}}
        ok_file = os.path.exists(out)
        if ok_file:
            res = json.load(open(out))
            res["_step"] = tag
        res["_secs"] = round(time.time() - t, 1)
        res.setdefault("notes", {})["%s_reports" % kind] = len(reports)
        res.setdefault("counters", {})["%s_runs" % kind] = 1
        if kind == "tsan":
            # attribution rule (DESIGN.md section 0): a race report counts only if one of its stacks runs through
            # repository code; reports entirely inside dependencies (sled's Arc drop with a stand-alone fence,
            # rayon/crossbeam internals) are counted and listed, not alarmed
            mine = [r for r in reports if "/repo/rln/src/" in r or "/repo/utils/src/" in r]
            res["notes"]["tsan_reports_total"] = len(reports)
            res["notes"]["tsan_reports_attributed_to_repo"] = len(mine)
            res["notes"]["tsan_reports_in_dependencies_only"] = [r.splitlines()[0][:120] for r in reports if r not in mine][:10]
            import re as _re
            ms = _re.findall(r"Matched (\d+) suppressions", err)
            res["notes"]["tsan_suppressions_matched"] = ms[-1] if ms else "0"
            reports = mine
        if kind == "memcheck":
            # same attribution rule for valgrind: a report whose innermost frame is inside a dependency (sled compares
            # inline IVec values that contain padding bytes -- a known benign memcheck report) is listed, not alarmed.
            # What this leg is after is an uninitialised / out-of-bounds read of an FFI output buffer, which shows up
            # with the innermost frame in rln's ffi.rs or in the harness code reading the buffer.
            def innermost(r):
                for ln in r.splitlines():
                    if " at 0x" in ln:
                        return ln
                return ""
            dep = ("sled::", "<sled", "crossbeam", "rayon", "parking_lot", "ark_", "<ark", "num_bigint", "hashbrown")
            mine = [r for r in reports if not any(d in innermost(r) for d in dep)]
            res["notes"]["memcheck_reports_total"] = len(reports)
            res["notes"]["memcheck_reports_in_dependencies_only"] = sorted(set(innermost(r).split(": ", 1)[-1][:100] for r in reports if r not in mine))[:10]
            reports = mine
        for rtxt in reports[:5]:
            first = rtxt.splitlines()[0]
            m = re.search(r"(AddressSanitizer|ThreadSanitizer|LeakSanitizer): ([a-zA-Z\- ]+)", first)
            what = (m.group(2).strip().replace(" ", "-") if m else first.strip()[:40].replace(" ", "-"))
            frame = ""
            for fl in rtxt.splitlines():
                mm = re.search(r"(/repo/[^ :]+|harness/src/[^ :]+)", fl)
                if mm:
                    frame = mm.group(1).split("/src/")[-1]
                    break
            res["violations"].append({"sig": "%s:%s:%s" % (kind, what, frame), "count": 1, "details": [{"report": rtxt[:3000]}]})
        if p.returncode != 0 and not reports:
            last = ""
            cl = os.path.join(self.run_dir, "c11.calls.log")
            if os.path.exists(cl):
                try:
                    last = open(cl, errors="replace").read().splitlines()[-1]
                except Exception:
                    pass
            if p.returncode < 0 or p.returncode in (134, 139):
                res["violations"].append({"sig": "%s:process-died:signal" % kind, "count": 1,
                                          "details": [{"returncode": p.returncode, "last_logged_call": last, "stderr_tail": err[-1500:]}]})
            elif not ok_file:
                self.inconclusive.append("%s step %s exited with %s: %s" % (kind, tag, p.returncode, err[-500:]))
                return None
        self.results.append(res)
        return res

    def run_miri(self, n, tag="miri-pure", timeout=5400):
        """Runs the `miri-pure` workload of the harness (FFI buffer handling around ffi::hash, byte codecs, graph
        operators) under the Miri interpreter. Undefined behaviour reported by Miri is a violation."""
        env = self.base_env()
        env["MIRIFLAGS"] = "-Zmiri-disable-isolation"
        env["RUSTFLAGS"] = "--cfg zerokit_verif"
        tdir = os.path.join(self.harness, "target-miri")
        cmd = ["cargo", "+nightly", "miri", "run", "--offline", "--no-default-features", "--features", "pm",
               "--manifest-path", os.path.join(self.harness, "Cargo.toml"), "--target-dir", tdir, "--", "miri-pure", str(n)]
        t = time.time()
        try:
            p = subprocess.run(cmd, env=env, stdout=subprocess.PIPE, stderr=subprocess.PIPE, text=True, timeout=timeout, errors="replace")
        except subprocess.TimeoutExpired:
            self.inconclusive.append("watchdog: miri run did not finish in %ds" % timeout)
            return None
        res = {"_step": tag, "evaluations": 0, "strata_all": [], "violations": [], "samples": [], "counters": {"miri_runs": 1},
               "notes": {}, "_secs": round(time.time() - t, 1),
               "rule": "Miri: FFI buffer handling around ffi::hash (raw pointers, leaked output), byte codecs and graph operators on boundary operands interpreted with undefined-behaviour checks"}
        m = re.search(r"MIRI-PURE-OK (\d+)", p.stdout)
        if "Undefined Behavior" in p.stderr or "error: unsupported operation" in p.stderr and not m:
            i = p.stderr.find("Undefined Behavior")
            txt = p.stderr[max(0, i - 200): i + 2500] if i >= 0 else p.stderr[-2500:]
            kind = "undefined-behavior" if i >= 0 else "unsupported-operation"
            if kind == "undefined-behavior":
                frame = ""
                mm = re.search(r"(/repo/[^ :]+)", txt)
                if mm:
                    frame = mm.group(1).split("/src/")[-1]
                res["violations"].append({"sig": "miri:undefined-behavior:%s" % frame, "count": 1, "details": [{"report": txt}]})
            else:
                self.inconclusive.append("miri: unsupported operation: %s" % txt[-400:])
                return None
        elif "MIRI-PURE-MISMATCH" in p.stdout:
            res["violations"].append({"sig": "miri:result-mismatch", "count": 1, "details": [{"stdout": p.stdout[-500:]}]})
        elif m:
            res["evaluations"] = int(m.group(1))
            res["strata_all"] = ["miri|ffi::hash", "miri|codecs", "miri|graph-operators"]
            res["samples"] = [{"miri": "MIRI-PURE-OK %s evaluations, no undefined behaviour reported" % m.group(1)}]
        else:
            self.inconclusive.append("miri step failed: %s" % p.stderr[-600:])
            return None
        self.results.append(res)
        return res

    def run_py(self, script, args, tag, timeout=3600):
        out = os.path.join(self.run_dir, "result-%s-%d.json" % (tag, len(self.results)))
        cmd = [sys.executable, os.path.join(self.verif, "oracles", script)] + [a.replace("{out}", out) for a in args]
        t = time.time()
        try:
            p = subprocess.run(cmd, stdout=subprocess.PIPE, stderr=subprocess.PIPE, text=True, timeout=timeout)
        except subprocess.TimeoutExpired:
            self.inconclusive.append("watchdog: offline checker %s did not finish in %ds" % (tag, timeout))
            return None
        if p.returncode != 0 or not os.path.exists(out):
            self.inconclusive.append("offline checker %s failed: %s" % (tag, p.stderr[-600:]))
            return None
        r = json.load(open(out))
        r["_step"] = tag
        r["_secs"] = round(time.time() - t, 1)
        self.results.append(r)
        return r

    def add_result(self, r):
        self.results.append(r)


class BuildFailed(Exception):
    def __init__(self, config, san, log):
        self.config, self.san, self.log = config, san, log
        super().__init__("build failed for %s/%s" % (config, san))


TOTAL_FUNCTION_PROPS = {"C03", "C04", "C05", "C09", "C10", "C14", "C19", "C20"}
ABORT_FREEDOM_PROPS = {"C12", "C13"}


def load_known(verif):
    path = os.path.join(verif, "known_findings.json")
    if not os.path.exists(path):
        return {"findings": [], "fixed": []}
    return json.load(open(path))


def merge_results(results):
    m = {"evaluations": 0, "strata": set(), "samples": [], "violations": {}, "inconclusive": {}, "counters": {},
         "notes": {}, "assumptions": [], "rules": [], "steps": []}
    for r in results:
        m["evaluations"] += r.get("evaluations", 0)
        step = r.get("_step", "?")
        # strata: exact count is in distinct_nontrivial; strata_sample may be truncated -> prefix with step
        if "strata_all" in r:
            m["strata"].update(r["strata_all"])
            extra = 0
        else:
            ss = r.get("strata_sample", [])
            m["strata"].update(ss)
            extra = max(0, r.get("distinct_nontrivial", 0) - len(ss))
        m.setdefault("strata_extra", 0)
        m["strata_extra"] += extra
        for s in r.get("samples", []):
            if len(m["samples"]) < 12:
                m["samples"].append(s)
        for v in r.get("violations", []):
            e = m["violations"].setdefault(v["sig"], {"count": 0, "details": [], "steps": []})
            e["count"] += v.get("count", 1)
            e["details"] += v.get("details", [])[: max(0, 3 - len(e["details"]))]
            if step not in e["steps"]:
                e["steps"].append(step)
        for k, n in r.get("inconclusive", {}).items():
            m["inconclusive"][k] = m["inconclusive"].get(k, 0) + n
        for k, n in r.get("counters", {}).items():
            m["counters"][k] = m["counters"].get(k, 0) + n
        for k, v in r.get("notes", {}).items():
            m["notes"].setdefault(step + "." + k if k in m["notes"] else k, v)
        for a in r.get("assumptions", []):
            if a not in m["assumptions"]:
                m["assumptions"].append(a)
        if r.get("rule") and r["rule"] not in m["rules"]:
            m["rules"].append(r["rule"])
        m["steps"].append({"step": step, "evaluations": r.get("evaluations", 0), "distinct": r.get("distinct_nontrivial", 0),
                           "secs": r.get("_secs", r.get("wall_s"))})
    return m


def main(argv, verif, repo, harness):
    import plans
    if not argv:
        print(__doc__)
        return 2
    if argv[0] == "--setup":
        return plans.setup(Ctx(verif, repo, harness, "setup", "quick", 0))
    prop = argv[0]
    if prop not in plans.PLANS:
        print("unknown property %s" % prop)
        return 2
    tier = os.environ.get("VERIF_TIER", "quick")
    replay = None
    rest = argv[1:]
    i = 0
    while i < len(rest):
        if rest[i] in ("quick", "thorough"):
            tier = rest[i]
        elif rest[i] == "--replay":
            replay = rest[i + 1]
            i += 1
        i += 1
    seed = int(os.environ.get("VERIF_SEED", "0") or 0)
    if replay:
        rp = json.load(open(replay))
        tier, seed = rp.get("tier", tier), rp.get("seed", seed)
    plan = plans.PLANS[prop]
    ctx = Ctx(verif, repo, harness, prop, tier, seed)
    rc = 2
    try:
        rc = run_property(ctx, plan, replay)
    finally:
        if not os.environ.get("VERIF_KEEP"):
            ctx.cleanup()
    return rc


def run_property(ctx, plan, replay):
    prop, tier, seed = ctx.prop, ctx.tier, ctx.seed
    level = plan["level"]
    build_violation = None
    try:
        plan["run"](ctx)
    except BuildFailed as e:
        if plan.get("build_failure_is_violation") and plan["build_failure_is_violation"](e):
            build_violation = e
        else:
            ctx.inconclusive.append("build failed (%s/%s): %s" % (e.config, e.san, e.log[-1500:]))
    except Inconclusive as e:
        ctx.inconclusive.append(str(e))
    m = merge_results(ctx.results)
    if build_violation is not None:
        m["violations"]["build:%s:does-not-compile" % build_violation.config] = {
            "count": 1, "details": [{"config": build_violation.config, "compiler_output_tail": build_violation.log[-3000:]}],
            "steps": ["build"]}
    known = load_known(ctx.verif)
    known_sigs = {f["sig"]: f for f in known.get("findings", []) if f.get("property") == prop}
    known_seen, new = [], []
    for sig, v in sorted(m["violations"].items()):
        if sig in known_sigs:
            known_seen.append((sig, v))
        else:
            new.append((sig, v))
    distinct = len(m["strata"]) + m.get("strata_extra", 0)
    incon = list(ctx.inconclusive) + ["%s (x%d)" % (k, n) for k, n in m["inconclusive"].items()]
    wall = round(time.time() - ctx.t0, 1)
    coverage = {
        "evaluations": m["evaluations"],
        "distinct_nontrivial": distinct,
        "rule": " || ".join(m["rules"]) or plan.get("rule", ""),
        "samples": m["samples"],
        "steps": m["steps"],
        "counters": m["counters"],
        "notes": m["notes"],
        "inconclusive": incon,
        "known_findings_seen": [{"sig": s, "count": v["count"]} for s, v in known_seen],
        "builds": ctx.build_log,
        "strata_sample": sorted(m["strata"])[:120],
    }
    coverage.update(ctx.extra)
    if plan.get("exhaustive_key") and m["notes"].get(plan["exhaustive_key"]):
        coverage["exhaustive"] = True
    ev = {
        "property_id": prop, "tier": tier, "seed": seed, "level": level, "coverage": coverage,
        "assumptions": m["assumptions"], "wall_s": wall, "violations": len(new),
    }
    os.makedirs(os.path.join(ctx.verif, "evidence"), exist_ok=True)
    evpath = os.path.join(ctx.verif, "evidence", "%s.json" % prop)
    with open(evpath + ".tmp", "w") as f:
        json.dump(ev, f, indent=1, sort_keys=False, default=str)
    os.replace(evpath + ".tmp", evpath)
    for sig, v in known_seen:
        print("KNOWN-FINDING: property=%s %s -- %s (observed %d times)" % (prop, sig, known_sigs[sig].get("what", "")[:220], v["count"]))
    rc = 0
    if new:
        os.makedirs(os.path.join(ctx.verif, "replays"), exist_ok=True)
        for sig, v in new:
            h = hashlib.sha256(sig.encode()).hexdigest()[:10]
            rpath = os.path.join(ctx.verif, "replays", "%s-%s-%d-%s.json" % (prop, tier, seed, h))
            with open(rpath, "w") as f:
                json.dump({"property": prop, "tier": tier, "seed": seed, "sig": sig, "count": v["count"],
                           "details": v["details"], "steps": v["steps"],
                           "rerun": "VERIF_SEED=%d ./check %s %s" % (seed, prop, tier)}, f, indent=1, default=str)
            print("VIOLATION property=%s replay=%s sig=%s" % (prop, rpath, sig))
        rc = 1
    min_ev = plan.get("min_evaluations", {}).get(tier, 1)
    min_di = plan.get("min_distinct", {}).get(tier, 2)
    if rc == 0:
        if m["evaluations"] < min_ev or distinct < min_di:
            print("INCONCLUSIVE property=%s observed too little: evaluations=%d (min %d) distinct=%d (min %d); %s" % (
                prop, m["evaluations"], min_ev, distinct, min_di, "; ".join(incon)[:2000]))
            rc = 2
        elif ctx.inconclusive and plan.get("strict_inconclusive", True):
            # a step of the machinery failed: do not claim the property held
            print("INCONCLUSIVE property=%s machinery step failed: %s" % (prop, "; ".join(ctx.inconclusive)[:3000]))
            rc = 2
    if replay and rc == 0:
        print("replay: violation of %s not reproduced" % replay)
    print("[check] %s %s seed=%d: evaluations=%d distinct=%d new_violations=%d known=%d inconclusive=%d wall=%.1fs -> exit %d" % (
        prop, tier, seed, m["evaluations"], distinct, len(new), len(known_seen), len(incon), wall, rc))
    return rc
