#!/bin/bash
# usage: lib/r_seed.sh <tag> <prop> [<check to run>...]  -- confirm the sub-agent's change in its worktree, then run the quick check(s) on it in a namespace slot
tag=$1; p=$2; shift 2; checks=${@:-$p}
id=$tag-$p
crate=$(python3 -c "import json;print(json.load(open('/tmp/mut/$id/MUTATION/meta.json')).get('demo_crate','rln'))")
[ "$crate" = zerokit_utils ] && crate=utils
c=$(/verif/lib/confirm_seed.sh $id $crate demo_test.rs 2>&1 | tail -2 | tr '\n' ' ')
echo "== $id: $c"
case "$c" in *NOT-CONFIRMED*) exit 1;; esac
/verif/lib/seedtest_ns.sh $id /tmp/mut/$id/MUTATION/patch.diff quick $checks 2>&1 | sed "s/^/[$id] /"
