#!/bin/bash
# usage: lib/confirm_seed.sh <id> <rln|utils> <demo file name inside MUTATION/demo> [extra cargo args for the demo]
# Confirms a seeded change in its scratch worktree /tmp/mut/<id>: demo fails with the patch, existing tests of the
# crate pass with the patch, demo passes without it. Prints CONFIRMED or NOT-CONFIRMED.
id=$1; crate=$2; demo=$3; shift 3
wt=/tmp/mut/$id; pkg=rln; [ "$crate" = utils ] && pkg=zerokit_utils
export CARGO_TARGET_DIR=$wt/target
cd $wt || exit 2
git checkout -q -- rln utils 2>/dev/null
name=seed_demo_$(echo $id | tr 'A-Z' 'a-z')
git apply MUTATION/patch.diff || { echo "NOT-CONFIRMED patch does not apply"; exit 1; }
cp MUTATION/demo/$demo $crate/tests/$name.rs
cargo test -p $pkg --offline --test $name "$@" > /tmp/mut/$id.demo_with.log 2>&1; with=$?
rm -f $crate/tests/$name.rs
cargo test -p $pkg --offline > /tmp/mut/$id.existing.log 2>&1; existing=$?
# the known-flaky performance test is not part of the stable baseline
if [ $existing -ne 0 ] && ! grep -E "^test .* FAILED" /tmp/mut/$id.existing.log | grep -v performance_ffi | grep -q .; then existing=0; fi
git apply -R MUTATION/patch.diff
cp MUTATION/demo/$demo $crate/tests/$name.rs
cargo test -p $pkg --offline --test $name "$@" > /tmp/mut/$id.demo_without.log 2>&1; without=$?
rm -f $crate/tests/$name.rs
git checkout -q -- rln utils
echo "demo_with_patch_exit=$with existing_tests_with_patch_exit=$existing demo_without_patch_exit=$without"
if [ $with -ne 0 ] && [ $existing -eq 0 ] && [ $without -eq 0 ]; then echo CONFIRMED; else echo NOT-CONFIRMED; fi
