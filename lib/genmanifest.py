#!/usr/bin/env python3
"""Regenerates MANIFEST.json from lib/manifest_src.py (single source of truth)."""
import json, os, sys
sys.path.insert(0, os.path.dirname(os.path.abspath(__file__)))
import manifest_src as ms
props = [json.loads(l)["id"] for l in open(os.path.join(os.path.dirname(__file__), "..", "properties.jsonl"))]
checks = []
for pid in props:
    if pid in ms.CHECKS:
        c = ms.CHECKS[pid]
        checks.append({
            "property_id": pid,
            "quick_cmd": "./check %s quick" % pid,
            "thorough_cmd": "./check %s thorough" % pid,
            "evidence_file": "/verif/evidence/%s.json" % pid,
            "replay_cmd_template": "./check %s --replay {path}" % pid,
            "engine": "vh",
            "level_claimed": {"category": c["level"], "text": c["text"], "design_ref": c.get("design_ref", "DESIGN.md section 2, " + pid)},
            "level_note": c["note"],
            "technique": c["technique"],
        })
na = [{"property_id": pid, "reason": ms.NOT_APPLICABLE.get(pid, "check not built yet in this session; see DESIGN.md")}
      for pid in props if pid not in ms.CHECKS]
m = {
    "version": 1,
    "setup_cmd": "./check --setup",
    "hooks": ms.HOOKS,
    "engines": [{"name": "vh", "path": "/verif/harness", "serves_properties": sorted(ms.CHECKS.keys()),
                 "kind_free_text": "Rust workload+monitor binary (path-depends on /repo/rln and /repo/utils, built with --cfg zerokit_verif) driven by ./check (Python), with reference oracles: rln.wasm under node, from-spec Poseidon/Keccak/ChaCha, ideal Merkle model, big-integer circom semantics; sanitizer builds (ASan/TSan), valgrind and Miri for the FFI/concurrency legs"}],
    "checks": checks,
    "notes": ms.NOTES,
    "not_applicable": na,
}
json.dump(m, open(os.path.join(os.path.dirname(__file__), "..", "MANIFEST.json"), "w"), indent=1)
print("wrote MANIFEST.json: %d checks, %d not_applicable" % (len(checks), len(na)))
