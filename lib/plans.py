"""Per-property check plans: which harness builds and workloads decide each property."""
import json
import os
import subprocess
import sys

from vcheck import BuildFailed, Inconclusive


def simple(prop, config="pm", **kw):
    def run(ctx):
        b = ctx.build(config)
        ctx.run_vh(b, prop, **kw)
    return run


def with_overflow_checks(prop, config="pm", **kw):
    """The workload once on the ordinary optimised build and once on a build with integer-overflow checks on (what
    `cargo test` and every debug build of the library have): for the crash-freedom properties an overflow that wraps
    silently in one build profile and panics in the other is a panic the statement excludes."""
    def run(ctx):
        b = ctx.build(config)
        ctx.run_vh(b, prop, **kw)
        try:
            bo = ctx.build(config, san="ovf")
            ctx.run_vh(bo, prop, tag=prop + "-overflow-checks", **kw)
        except BuildFailed as e:
            ctx.inconclusive.append("overflow-checks build failed: %s" % e.log[-600:])
    return run


def on_every_stateful_build(prop, overflow=False, **kw):
    """The same workload on the default build and on the other tree backends / key format (`fullmerkletree`,
    no-default-features = Optimal tree, `arkzkey`): proving and verification go through backend- and
    loader-specific code (tree proof lookup, key parsing) that a change may touch in one configuration only. The
    stateless configuration has no tree; its verification code is covered by C17's cross-build verdicts."""
    def run(ctx):
        b = ctx.build("pm")
        ctx.run_vh(b, prop, **kw)
        if overflow:
            try:
                bo = ctx.build("pm", san="ovf")
                ctx.run_vh(bo, prop, tag=prop + "-overflow-checks", **kw)
            except BuildFailed as e:
                ctx.inconclusive.append("overflow-checks build failed: %s" % e.log[-600:])
        for cfg in ("full", "optimal", "arkzkey"):
            try:
                bc = ctx.build(cfg)
            except BuildFailed as e:
                ctx.inconclusive.append("build of %s failed: %s" % (cfg, e.log[-600:]))
                continue
            ctx.run_vh(bc, prop, tag="%s-%s-build" % (prop, cfg), **kw)
    return run


def run_c09(ctx):
    b = ctx.build("pm")
    ctx.run_vh(b, "C09")
    log = os.path.join(ctx.run_dir, "c09.log.jsonl")
    ctx.run_py("check_hash_log.py", [log, "{out}"], "C09-offline-python")


def run_tree(prop):
    def run(ctx):
        env = {"RAYON_NUM_THREADS": "2"}
        b = ctx.build("pm")
        ctx.run_vh(b, prop, env_extra=env, tag=prop + "-pm-build")
        for cfg in ("optimal", "full"):
            b = ctx.build(cfg)
            ctx.run_vh(b, prop, extra_args=["--rln-only"], env_extra=env, tag="%s-%s-build-rln-level" % (prop, cfg))
    return run


def run_c17(ctx):
    d = os.path.join(ctx.run_dir, "c17")
    os.makedirs(d, exist_ok=True)
    bins = {}
    failed = []
    for cfg in ["pm", "full", "optimal", "arkzkey", "stateless"]:
        try:
            bins[cfg] = ctx.build(cfg)
        except BuildFailed as e:
            failed.append(cfg)
            ctx.add_result({"_step": "build-" + cfg, "evaluations": 1, "strata_all": ["build|%s|failed" % cfg],
                            "violations": [{"sig": "build:%s:does-not-compile" % cfg, "count": 1,
                                            "details": [{"config": cfg, "compiler_output_tail": e.log[-3000:]}]}]})
        else:
            ctx.add_result({"_step": "build-" + cfg, "evaluations": 1, "strata_all": ["build|%s|ok" % cfg], "violations": []})
    ctx.extra["configs_built"] = sorted(bins.keys())
    ctx.extra["configs_failed_to_build"] = failed
    if "arkzkey" in bins:
        ctx.run_vh(bins["arkzkey"], "C17", ["--phase", "keys"], tag="keys-arkzkey")
    for cfg, b in bins.items():
        ctx.run_vh(b, "C17", ["--phase", "emit", "--dir", d], tag="emit-" + cfg)
    for cfg, b in bins.items():
        ctx.run_vh(b, "C17", ["--phase", "verify", "--dir", d], tag="verify-" + cfg)
    # transcripts must be byte-identical between builds
    ts = {}
    for cfg in bins:
        f = os.path.join(d, "transcript-%s.txt" % cfg)
        if os.path.exists(f):
            ts[cfg] = open(f).read()
    res = {"_step": "transcripts-across-builds", "evaluations": 0, "strata_all": [], "violations": [], "samples": []}
    names = sorted(ts)
    for i, a in enumerate(names):
        for b in names[i + 1:]:
            res["evaluations"] += 1
            res["strata_all"].append("transcript-pair|%s|%s" % (a, b))
            if ts[a] != ts[b]:
                la, lb = ts[a].splitlines(), ts[b].splitlines()
                first = next((k for k in range(min(len(la), len(lb))) if la[k] != lb[k]), min(len(la), len(lb)))
                res["violations"].append({"sig": "transcript:%s-vs-%s:differ" % (a, b), "count": 1,
                                          "details": [{"first_differing_line": first, a: la[first:first + 1], b: lb[first:first + 1]}]})
    if len(names) < 2:
        ctx.inconclusive.append("fewer than two transcripts to compare")
    ctx.add_result(res)
    # verdicts of every build on the same variants of the same messages (tampered, truncated, other root sets) must
    # be identical between builds
    vs = {}
    for cfg in bins:
        f = os.path.join(d, "verdicts-%s.txt" % cfg)
        if os.path.exists(f):
            vs[cfg] = open(f).read().splitlines()
    res = {"_step": "verdicts-across-builds", "evaluations": 0, "strata_all": [], "violations": [], "samples": []}
    names = sorted(vs)
    for i, a in enumerate(names):
        for b in names[i + 1:]:
            res["evaluations"] += len(vs[a])
            res["strata_all"].append("verdict-pair|%s|%s" % (a, b))
            if vs[a] != vs[b]:
                diff = [(x, y) for x, y in zip(vs[a], vs[b]) if x != y][:4]
                kinds = sorted(set(":".join(x.split("|")[2:-1]) for x, y in diff)) if diff else ["length"]
                res["violations"].append({"sig": "verdicts:%s-vs-%s:differ:%s" % (a, b, kinds[0]), "count": len(diff) or 1,
                                          "details": [{a: x, b: y} for x, y in diff] or [{"lines": [len(vs[a]), len(vs[b])]}]})
    if len(names) < 2:
        ctx.inconclusive.append("fewer than two verdict files to compare")
    ctx.add_result(res)


def run_c11(ctx):
    env = {"RAYON_NUM_THREADS": "4"}
    b = ctx.build("pm")
    ctx.run_sanitized(b, "C11", env_extra=env, tag="C11-lockstep", kind="plain")
    # the same lockstep workload under AddressSanitizer (leak checking off: the FFI leaks outputs by design)
    try:
        ba = ctx.build("pm", san="asan")
    except BuildFailed as e:
        ctx.inconclusive.append("ASan build failed: %s" % e.log[-800:])
        return
    asan_env = dict(env)
    asan_env["ASAN_OPTIONS"] = "detect_leaks=0:halt_on_error=1:abort_on_error=0:exitcode=77:allocator_may_return_null=1"
    scale = "100" if ctx.tier == "thorough" else "40"
    ctx.run_sanitized(ba, "C11", extra_args=["--scale", scale], env_extra=asan_env, tag="C11-lockstep-asan", kind="asan", timeout=7200)
    # the stateless configuration has its own constructors: lockstep of FFI and Rust API there (native + ASan)
    try:
        bs = ctx.build("stateless")
        ctx.run_sanitized(bs, "C11S", env_extra=env, tag="C11-stateless-lockstep", kind="plain")
    except BuildFailed as e:
        ctx.inconclusive.append("stateless build failed: %s" % e.log[-800:])
    if ctx.tier == "thorough":
        vg = ["valgrind", "--tool=memcheck", "--leak-check=no", "--error-exitcode=78", "--track-origins=no", "-q"]
        ctx.run_sanitized(b, "C11", extra_args=["--scale", "6", "--no-proofs"], env_extra={"RAYON_NUM_THREADS": "1"},
                          tag="C11-lockstep-memcheck", kind="memcheck", wrapper=vg, timeout=7200)
        # Miri on the only unsafe code it can reach (ffi::hash buffer handling) + pure codecs/operators
        ctx.run_miri(16)


def run_c18(ctx):
    b = ctx.build("pm")
    ctx.run_sanitized(b, "C18", tag="C18-native", kind="plain", timeout=7200)
    if ctx.tier != "thorough" and not os.environ.get("VERIF_C18_SANITIZERS"):
        return
    # ThreadSanitizer: shared-instance monitor and the rayon batch workload
    try:
        bt = ctx.build("pm", san="tsan")
        supp = os.path.join(ctx.verif, "oracles", "tsan.supp")
        env = {"TSAN_OPTIONS": "suppressions=%s halt_on_error=0 exitcode=0 report_signal_unsafe=0 history_size=4" % supp,
               "RAYON_NUM_THREADS": "4"}
        ctx.run_sanitized(bt, "C18", extra_args=["--only", "shared,transcript", "--scale", "15"], env_extra=env,
                          tag="C18-tsan", kind="tsan", timeout=7200)
    except BuildFailed as e:
        ctx.inconclusive.append("TSan build failed: %s" % e.log[-600:])
    # AddressSanitizer: FFI variant of the shared-instance monitor
    try:
        ba = ctx.build("pm", san="asan")
        env = {"ASAN_OPTIONS": "detect_leaks=0:halt_on_error=1:exitcode=77", "RAYON_NUM_THREADS": "4"}
        ctx.run_sanitized(ba, "C18", extra_args=["--only", "shared", "--scale", "30"], env_extra=env, tag="C18-asan", kind="asan", timeout=7200)
    except BuildFailed as e:
        ctx.inconclusive.append("ASan build failed: %s" % e.log[-600:])


PLANS = {
    "C18": {"level": "exploration", "run": run_c18,
            "min_evaluations": {"quick": 10000, "thorough": 100000}, "min_distinct": {"quick": 100, "thorough": 150}},
    "C11": {"level": "exploration", "run": run_c11,
            "min_evaluations": {"quick": 1200, "thorough": 15000}, "min_distinct": {"quick": 80, "thorough": 120}},
    "C16": {"level": "fault_enumeration", "run": simple("C16", env_extra={"RAYON_NUM_THREADS": "2"}, timeout=7200),
            "min_evaluations": {"quick": 800, "thorough": 10000}, "min_distinct": {"quick": 80, "thorough": 200}},
    "C17": {"level": "exploration", "run": run_c17, "exhaustive_key": None,
            "min_evaluations": {"quick": 1000, "thorough": 5000}, "min_distinct": {"quick": 40, "thorough": 100}},
    "C01": {"level": "exploration", "run": on_every_stateful_build("C01", timeout=7200),
            "min_evaluations": {"quick": 40, "thorough": 1000}, "min_distinct": {"quick": 40, "thorough": 500}},
    "C02": {"level": "exploration", "run": on_every_stateful_build("C02", timeout=7200),
            "min_evaluations": {"quick": 1500, "thorough": 30000}, "min_distinct": {"quick": 50, "thorough": 60}},
    "C12": {"level": "exploration", "run": on_every_stateful_build("C12", overflow=True, timeout=7200),
            "min_evaluations": {"quick": 200, "thorough": 1500}, "min_distinct": {"quick": 40, "thorough": 60}},
    "C13": {"level": "exploration", "run": on_every_stateful_build("C13", overflow=True, timeout=7200),
            "min_evaluations": {"quick": 3000, "thorough": 60000}, "min_distinct": {"quick": 300, "thorough": 350}},
    "C06": {"level": "exploration", "run": run_tree("C06"),
            "min_evaluations": {"quick": 20000, "thorough": 500000}, "min_distinct": {"quick": 2000, "thorough": 20000}},
    "C07": {"level": "exploration", "run": run_tree("C07"),
            "min_evaluations": {"quick": 100000, "thorough": 2000000}, "min_distinct": {"quick": 500, "thorough": 1000}},
    "C08": {"level": "exploration", "run": run_tree("C08"),
            "min_evaluations": {"quick": 10000, "thorough": 300000}, "min_distinct": {"quick": 1000, "thorough": 3000}},
    "C15": {"level": "exploration", "run": run_tree("C15"),
            "min_evaluations": {"quick": 20000, "thorough": 500000}, "min_distinct": {"quick": 1000, "thorough": 2000}},
    "C03": {"level": "exploration", "run": simple("C03"),
            "min_evaluations": {"quick": 5000, "thorough": 100000}, "min_distinct": {"quick": 100, "thorough": 200}},
    "C04": {"level": "exploration", "run": simple("C04"),
            "min_evaluations": {"quick": 2000, "thorough": 50000}, "min_distinct": {"quick": 300, "thorough": 500}},
    "C05": {"level": "exploration", "run": simple("C05"),
            "min_evaluations": {"quick": 3000, "thorough": 50000}, "min_distinct": {"quick": 300, "thorough": 500}},
    "C09": {"level": "exploration", "run": run_c09,
            "min_evaluations": {"quick": 100000, "thorough": 1000000}, "min_distinct": {"quick": 1000, "thorough": 2000}},
    "C10": {"level": "exploration", "run": simple("C10"),
            "min_evaluations": {"quick": 20000, "thorough": 200000}, "min_distinct": {"quick": 200, "thorough": 300}},
    "C14": {"level": "exploration", "run": simple("C14"),
            "min_evaluations": {"quick": 20000, "thorough": 200000}, "min_distinct": {"quick": 50, "thorough": 60}},
    "C19": {"level": "exploration", "run": with_overflow_checks("C19"),
            "min_evaluations": {"quick": 100000, "thorough": 5000000}, "min_distinct": {"quick": 500, "thorough": 1000}},
    "C20": {"level": "exploration", "run": with_overflow_checks("C20"),
            "min_evaluations": {"quick": 50000, "thorough": 500000}, "min_distinct": {"quick": 100, "thorough": 150}},
}


def setup(ctx):
    ok = True
    for cfg in ["pm", "optimal", "full", "arkzkey", "stateless"]:
        try:
            ctx.build(cfg)
        except BuildFailed as e:
            print("setup: build of %s failed:\n%s" % (cfg, e.log[-2000:]))
            ok = False
    try:
        ctx.build("pm", san="ovf")
    except BuildFailed as e:
        print("setup: overflow-checks build failed:\n%s" % e.log[-2000:])
        ok = False
    print(json.dumps(ctx.build_log))
    ctx.cleanup()
    return 0 if ok else 2
