"""Per-property check plans: which harness builds and workloads decide each property."""
import json
import os
import subprocess
import sys

from vcheck import BuildFailed, Inconclusive


def simple(prop, config="pm", **kw):
    def run(ctx):
        b = ctx.build(config)
        ctx.run_vh(b, prop, **kw)
    return run


PLANS = {
    "C19": {
        "level": "exploration",
        "run": simple("C19"),
        "min_evaluations": {"quick": 100000, "thorough": 5000000},
        "min_distinct": {"quick": 500, "thorough": 1000},
    },
}


def setup(ctx):
    ok = True
    for cfg in ["pm"]:
        try:
            ctx.build(cfg)
        except BuildFailed as e:
            print("setup: build of %s failed:\n%s" % (cfg, e.log[-2000:]))
            ok = False
    print(json.dumps(ctx.build_log))
    ctx.cleanup()
    return 0 if ok else 2
