#!/bin/bash
# usage: lib/coverage.sh <tier> <prop>...   -- measurement, not a check: runs the given checks with a coverage-instrumented
# harness (VERIF_COVERAGE) and prints which functions / lines of /repo/{rln,utils}/src the workloads never reached.
# Evidence written during the measurement is restored afterwards.
tier=$1; shift
cd /verif || exit 2
cov=/verif/work/cov; rm -rf $cov; mkdir -p $cov
cp -r evidence work/evidence.cov.bak
export VERIF_COVERAGE=$cov
for p in "$@"; do ./check $p $tier 2>/dev/null | grep -E "^\[check\]" | cut -c1-200; done
unset VERIF_COVERAGE
rm -rf evidence; mv work/evidence.cov.bak evidence
bin=$(dirname $(rustup +nightly which rustc))/../lib/rustlib/x86_64-unknown-linux-gnu/bin
$bin/llvm-profdata merge -sparse $cov/*.profraw -o $cov/all.profdata || exit 2
rm -f $cov/*.profraw
objs=""; for b in work/bin/vh-*-cov; do objs="$objs -object $b"; done
$bin/llvm-cov report $objs -instr-profile=$cov/all.profdata --ignore-filename-regex='(registry|rustc|harness|rustlib)' 2>/dev/null | tee $cov/report.txt | cut -c1-160
$bin/llvm-cov show $objs -instr-profile=$cov/all.profdata --ignore-filename-regex='(registry|rustc|harness|rustlib)' --show-line-counts-or-regions 2>/dev/null > $cov/show.txt
echo "annotated sources: $cov/show.txt"
