HOOKS = {
    "guard": "--cfg zerokit_verif",
    "enable": "RUSTFLAGS=\"--cfg zerokit_verif\" cargo build --release --offline (set by ./check for every harness build; the harness path-depends on /repo/rln and /repo/utils)",
    "baseline_off_cmd": "cd /repo && cargo test --workspace --no-fail-fast --offline",
    "source_commits": ["02b61d3"],
    "add_only": True,
}
NOTES = ("Runtime monitoring family. ./check <id> quick|thorough rebuilds the harness against /repo's working tree, runs the "
         "workload with monitors, applies known_findings.json and writes evidence/<id>.json. Exit 2 = inconclusive (machinery failure "
         "or too few observations), never a verdict.")
NOT_APPLICABLE = {}
CHECKS = {
    "C11": {
        "level": "exploration",
        "technique": "lockstep differential monitor (FFI-driven instance vs Rust-API-driven instance) with per-call flag/bytes/verdict and full-observation comparison, run natively and under AddressSanitizer (valgrind memcheck and a Miri run of the FFI buffer handling in thorough); process death = violation; a second lockstep on the stateless build (constructor sequences with different witness graphs)",
        "text": "Generated sequences of all exported FFI functions (in/out-of-range indices, odd buffers, batch and sequential batch updates, metadata, flush, set_tree, hashing, key generation, valid/invalid proof requests, verification of valid/tampered/truncated inputs, recovery, new/new_with_params with bad arguments) run on an instance reached only through raw pointers with uninitialised outputs, in lockstep with a twin driven through RLN methods; success flags, output bytes (relations for randomised outputs incl. cross-verification of proofs), verdicts and the observation (root, leaf count, 28 leaves, metadata) of both instances are compared after every call, and a failed call must leave the observation unchanged. The workload is repeated on an ASan build so that every pointer/length handed out is actually dereferenced under the sanitizer; thorough adds valgrind memcheck (uninitialised output bytes) on a proof-free sequence and Miri on the FFI buffer handling around ffi::hash, the byte codecs and the graph operators (the only parts Miri can reach). Every third one-input-one-output call is made in place (the same Buffer variable as input and output).",
        "note": "Trusted: catch_unwind on the Rust side defines 'the Rust API returns'; leak checking off (outputs are leaked by design).",
    },
    "C18": {
        "level": "exploration",
        "technique": "transcript equality across worker-pool sizes (RAYON_NUM_THREADS in {1,2,3,4,5,7,16} and children confined to 3 / 6 processors with the pool size left to the machine; separate processes) + shared-instance monitor (2..64 threads, &RLN and FFI *const RLN, results vs sequential twins, observed call-kind overlaps) + storm of cheap pure calls (2..16 threads over a few related inputs, compared with from-spec reference values, overlap measured) + fresh-process first-use races + recreate loop (also while the previous instance is still alive); ThreadSanitizer/AddressSanitizer builds in thorough",
        "text": "Nine processes with different worker-pool sizes (explicit sizes 1,2,3,4,5,7,16; two children confined to 3 / 6 processors) run the same workload (24 batch updates on a persistent tree plus structured batches with mirrored pairs, equal subtrees and default values, batches of 2049..7919 leaves whose length no small worker count divides through set_leaves_from / atomic_operation / init_tree_with_leaves, leaf counts, witnesses, proof values, proofs with verdicts, a fixed corpus of valid/tampered/truncated messages) and must produce the same transcript hash; 85 read-only queries of every kind are answered sequentially and then issued at random by 2..64 threads from a start barrier on one shared instance (also through the FFI), every result compared with its sequential twin; 1.8 M (quick) / 18 M (thorough) Poseidon / hash-to-field / seeded-keygen calls from 2..16 threads walking over the same eight related inputs are compared with reference values (a race window of nanoseconds needs this call density); the bundled witness graph and a variant are evaluated by 8 threads at once; fresh instances get their very first calls from 8 barrier-released threads; fresh processes race the first use of the lazy globals; 60..600 create-write-flush-drop-create cycles on one storage location must open with the model's state (latency and lock retries reported). Thorough repeats the shared-instance and batch workloads under TSan (reports attributed to repository frames only; dependency-internal reports listed) and the FFI variant under ASan.",
        "note": "Schedules are sampled. TSan does not model sled's stand-alone fences: reports whose stacks are entirely inside sled/crossbeam/rayon are suppressed but counted.",
    },
    "C16": {
        "level": "fault_enumeration",
        "technique": "fault enumeration with a cfg(zerokit_verif) fail-after-N storage hook (every put/put_batch/flush of each short history fails once) + reopen monitor against the ideal model + SIGKILL crash points of a writer process + reopen while another process holds the storage lock + real write failures via RLIMIT_FSIZE + fault-then-retry (refused call repeated, full state incl. root compared after reopen) + location check for absolute and relative configured paths",
        "text": "For short generated histories through RLN on persistent trees the harness counts the storage operations of an unarmed run and replays the history once per storage operation with the fault armed there (exhaustive for these histories): the API call hit must return Err, earlier calls keep their results, and after disarm+flush+drop+reopen every leaf, the leaf count and the metadata acknowledged before the failed call must be readable. Longer histories are flushed, dropped and reopened at four points under 6 storage configurations and 4 path styles and must equal the model, which the reopened tree keeps following. A writer process is SIGKILLed after an acknowledged flush - two thirds of the kills at a quiescent point right after the acknowledgement, enumerating the kind of update segment the flush closed (mixed, batch-only without growth, single-leaf-only, metadata-only, batch-then-delete) x depth x configuration, the rest in flight 0..120 ms later - and the recovered state must contain everything acknowledged. Reopen is attempted while another process holds the lock for 10..500 ms. Every other injected fault position repeats the refused call with faults off: if it is acknowledged, leaves, count, metadata and root must equal the model after flush + reopen (known finding: leaf count not persisted again after its persisting write failed once - vacp2p_pmtree). A writer process whose RLIMIT_FSIZE is lowered after its first acknowledged flush makes sled's writes really fail (EFBIG): nothing may panic and everything reported successful and flushed must be readable after reopen. Metadata values include all-zero bytes of several lengths, all-ones, zero-padded and 4 kB / 70 kB values; one leaf value in sixteen is the default value 0. Known finding: reset on a persistent instance.",
        "note": "Trusted: the hook returns the adapter's own error value at the entry of put/put_batch/close (same path as a failing sled call); the effect of the failed/in-flight operation is excluded; SIGKILL is a process crash, not a power failure.",
    },
    "C17": {
        "level": "exploration",
        "technique": "cross-build differential: harness built in the five feature configurations; exhaustive element-wise key comparison (zkey vs arkzkey); transcripts of a seeded history compared with the model and byte-for-byte between builds; 5x5 message acceptance matrix; verdicts of every build on 22 tampered / truncated / re-rooted variants of each message must be identical across builds",
        "text": "The driver builds the harness against /repo in the configurations pm (default), fullmerkletree, no-default (optimal), arkzkey and stateless (a configuration that does not compile is a violation); in the arkzkey build every component of (ProvingKey, ConstraintMatrices) from the two key files is compared element by element (exhaustive: about 55k elements); every stateful build writes the transcript of a seeded history (root after each operation, get_proof bytes at sampled positions) which must equal the model's and the other builds'; every build emits messages and every build verifies all of them (verify_with_roots with the producer's root, verify, verify_rln_proof on the replayed history).",
        "note": "Trusted: ideal model + reference Poseidon for the transcripts. Histories are sampled; the key comparison is exhaustive.",
    },
    "C01": {
        "level": "exploration",
        "technique": "completeness monitor: requests whose validity is established independently (reference Poseidon, shadow Merkle model, rln.wasm) driven through the four proving entry points; every output checked by all verification calls and decoded by the independent codec; run on the default, fullmerkletree, Optimal-tree and arkzkey builds",
        "text": "Valid requests are generated over boundary classes of index, limit, message id, secret, external nullifier and signal, with the rate commitment placed through each tree mutator and other leaves set/deleted around; the entry points generate_rln_proof, generate_rln_proof_with_witness, generate_proof_with_witness (fed with the reference generator's witness vector) and prove are used in rotation; each message must carry the independently computed public values and be accepted by verify_rln_proof, verify_with_roots (root alone and among decoys) and verify. Sampled by boundary classes (about 0.5 s per proof).",
        "note": "Trusted: validity oracle (reference Poseidon, model, rln.wasm), Groth16 completeness. The tree/model agreement is a precondition decided by C06/C08.",
    },
    "C02": {
        "level": "exploration",
        "technique": "mutation monitor over accepted messages: every decoded field, signal, declared length, all 1024 proof bits, verifier tree and root sets are modified; verification must never return true; positive controls restore acceptance; run on the default, fullmerkletree, Optimal-tree and arkzkey builds",
        "text": "For accepted messages from different strata every public value is replaced (+-1, 0, p-1, random, another field of the message), the signal is flipped/truncated/extended and its declared length changed with a consistent buffer, every single bit of the proof part is flipped (all 1024 in thorough and for the first message in quick), the verifier's tree is changed (unrelated/far leaf, member leaf overwritten/deleted) and restored (control), and root sets of size 1..8 without the root, near misses, and with it at every position (control) are supplied. Every modified public value is also offered with the root condition made to hold for the modified message (root set = the carried value alone / a window with it and the genuine root / empty), and after every change of the verifier's tree the message with its carried root rewritten to the new tree root: only the binding of the zk-proof to the carried values can refuse these.",
        "note": "Trusted: Groth16 soundness. Panics count as 'not true' (crash-freedom is C13). Aliases of the same field value are excluded here and decided by C13.",
    },
    "C12": {
        "level": "exploration",
        "technique": "outcome classifier {Ok+verifies, Ok+fails, Err, panic} over hostile proving requests, with rln.wasm partitioning well-formed requests into satisfiable/unsatisfiable; workload repeated on a build with integer-overflow checks on; run on the default, fullmerkletree, Optimal-tree and arkzkey builds",
        "text": "generate_rln_proof, generate_rln_proof_with_witness and prove (and, for malformed Merkle paths, the typed route: a witness decoded from an independently built JSON form handed to protocol::generate_proof / proof_values_from_witness) are driven with message ids at/above the limit, limits outside the circuit window, positions outside the tree, requests truncated at every length, oversized declared lengths and vector counts, witnesses with wrong path lengths / non-binary directions / trailing bytes, and random bytes; a returned message must verify (raw, carried root, same tree for members), unsatisfiable requests must be errors, and no call may panic - on the ordinary optimised build and on a build with integer-overflow checks on; field values of valid requests / witnesses are also submitted in the non-canonical encodings v + k*p (each field in turn), which the prover may refuse or prove for v, but never answer with a message verification refuses. Known finding: limits above 2^16 outside the circuit window.",
        "note": "Trusted: rln.wasm as the satisfiability oracle. Err on a satisfiable request is not a violation here (C01 decides completeness).",
    },
    "C13": {
        "level": "exploration",
        "technique": "crash monitor (catch_unwind) + alias monitor over hostile inputs to verify, verify_rln_proof, verify_with_roots (both arguments) and recover_id_secret (both arguments), run on the optimised build and on a build with integer-overflow checks on; run on the default, fullmerkletree, Optimal-tree and arkzkey builds",
        "text": "Every truncation length of a valid verification request, boundary declared signal lengths (incl. values that overflow offsets), field and proof replacement by fills/non-canonical values, compressed-point flag patterns, root lists of every length 0..100, over-long inputs and thousands of random or prefix-preserving byte strings are handed to all entry points; any panic is a violation; each alias v + k*p (k = 1..5) of each public value, alone and in pairs, must not be accepted.",
        "note": "Trusted: catch_unwind sees panics only (aborts are covered by the FFI child-process leg of C11). Trailing bytes after a well-formed request are driven for crash-freedom only.",
    },
    "C06": {
        "level": "exploration",
        "technique": "model-based runtime monitor: every backend (Full, Optimal with Poseidon and a toy hasher, PmTree temporary/persistent, RLN-level API in the pm/optimal/full builds) stepped in lockstep with the ideal hash tree (reference Poseidon), per-step root/leaf-count and periodic full observation",
        "text": "Thousands of generated histories over {set, delete, append, write_range, reset, compute_root} at depths 1..20 (positions inside/at/beyond capacity, empty ranges, ranges ending at capacity or crossing the middle, overwrites, deletes above the mark) are applied to each backend and to an independent ideal-tree model; after every operation root and leaf count, and every few operations / after every rejected operation all leaves and subtree roots (small depths) or touched+boundary+sampled ones are compared; subtree-root queries outside the tree (level below the leaves, position beyond capacity) must be refused. Histories are sampled, not enumerated.",
        "note": "Trusted: the ideal model and the reference Poseidon; return codes are not compared, only observable state; a panic of a non-batch operation is treated as a rejection whose state must be unchanged.",
    },
    "C07": {
        "level": "exploration",
        "technique": "model-based proof monitor in states reached by generated histories: structural checks, recomputation with the reference hash, tamper matrix (each sibling/bit) with verdicts predicted by the model, tree's own verify (cfg(zerokit_verif) constructor for PmTree proofs)",
        "text": "In the states reached by generated histories (after deletes, batch writes, reopen) every position (depth <= 4) or touched/boundary/sampled positions get their membership proof checked: length = depth, LSB-first position decoding, siblings equal to the model's, root recomputed from the stored leaf, acceptance by the backend's verify, rejection for a different leaf, and for each tampered sibling (+1, random, swapped) and flipped direction bit the verdict the model predicts; proofs with a level dropped (top / bottom) or added must not be accepted. RLN::get_proof bytes are decoded by the independent decoder.",
        "note": "Trusted: ideal model + reference Poseidon; PmTreeProof::verif_from_parts hook (constructor only).",
    },
    "C08": {
        "level": "exploration",
        "technique": "model-based runtime monitor for batch updates (override_range / atomic_operation / set_leaves_from / init_tree_with_leaves) with rejection-leaves-state-unchanged and no-panic oracles",
        "text": "Batch-heavy generated histories (start around 0/mark/capacity, n in {0,1,2,3,5,17}, removal sets empty/single/contiguous before, inside, after, straddling/duplicated/unsorted/above the mark/beyond capacity) on all backends at trait level and through RLN in the pm/optimal/full builds; after every batch the full observation must equal 'reset removed positions then write n leaves' or, if the model rejects the request, the observation before it; any panic is a violation. Known finding: PmTree batch-both shapes pinned by the baseline suite.",
        "note": "Trusted: ideal model. Removal-only requests with a start beyond capacity are not generated (undefined by the statement). RLN-level removals are limited to indices 0..255 by the u8 interface.",
    },
    "C15": {
        "level": "exploration",
        "technique": "model-based runtime monitor of get_empty_leaves_indices (typed and RLN byte form decoded independently) after every mutating operation incl. close/reopen of persistent trees",
        "text": "Generated histories over all mutating operations (single write, append, range, batch, delete, reset, compute_root as a query that must not change anything, reopen for the persistent backend) on all backends; after each step the reported list must equal the ascending list of positions below the high-water mark that the model records as never written or last removed. Known finding: flags are lost on reopen of a persistent tree.",
        "note": "Trusted: ideal model's written/removed flags (explicit write of the default value counts as written).",
    },
    "C03": {
        "level": "exploration",
        "technique": "relation monitor over generated message pairs (recover_id_secret == secret, nullifier relations) with reference-Poseidon cross-check; panics caught",
        "text": "Thousands of message pairs built from zerokit's own proof-value functions (boundary and random secrets / external nullifiers, all message-id classes, signal pairs incl. empty, degenerate and forged equal-x pairs) plus a few full generate_rln_proof pairs are fed to recover_id_secret; the oracle checks secret equality, nullifier equalities/inequalities against H(H(s,e,m)) from the reference Poseidon, and crash-freedom on degenerate pairs; second external nullifiers are neighbours, unrelated values and values whose 32-byte encodings differ from the first in exactly one byte (every byte position). Sampled input space.",
        "note": "Trusted: reference Poseidon (anchored on circomlib vectors), Keccak collision resistance.",
    },
    "C04": {
        "level": "exploration",
        "technique": "four-way differential monitor: independent formulas (reference Poseidon) vs proof_values_from_witness vs graph witness outputs vs rln.wasm outputs",
        "text": "For generated witnesses accepted by the reference generator (boundary field values in each input, every limit/id class, 48 direction-bit patterns x 4 path kinds, random) the published (y, root, nullifier, x, e) are compared element-wise between the independent formulas, zerokit's native computation, positions 1..5 of the graph witness and rln.wasm; bytes 128..288 of generated messages are compared for a sample.",
        "note": "Trusted: rln.wasm under node as the circuit, reference Poseidon. Sampled input space.",
    },
    "C05": {
        "level": "exploration",
        "technique": "differential monitor against the reference circom witness generator (rln.wasm under node): full 5844-vector digest equality, shuffled input order, repeated evaluation",
        "text": "Thousands of 46-element assignments (every input position at every limb/modulus boundary value, ids around each power of two, limits incl. >2^16 corner, bit patterns, random) are run through rln.wasm; for those it accepts, SHA-256 of zerokit's complete witness must equal the reference's, with named inputs supplied in shuffled order and re-evaluated in canonical order; on mismatch the first differing position is located. After every fourth accepted case the same thread makes a call the evaluator refuses (wrong vector length, unknown signal) carrying the values of a related assignment and then evaluates that assignment, compared the same way.",
        "note": "Trusted: rln.wasm + node's WebAssembly engine; SHA-256. Rejected assignments are out of the quantifier (counted).",
    },
    "C09": {
        "level": "exploration",
        "technique": "differential monitor vs from-spec Poseidon (own Grain LFSR constants) and Keccak-256, in-process (Rust) and offline over the recorded log (pure Python); first-use race of 16 threads",
        "text": "poseidon_hash (arity 1..8, every boundary value in every position, equal elements, random) and hash_to_field (every length 0..300, block boundaries, 64 kB, 1 MB, fills, random) through typed, byte-level and FFI entry points are compared with independent implementations written from the specifications and anchored on circomlib/Keccak vectors; a recorded sample is re-checked offline by a second, pure-Python implementation; 16 threads race the lazy initialisation in a fresh process and hash concurrently.",
        "note": "Trusted: the two reference implementations and their anchors; arkworks field arithmetic (shared by the Rust reference, not by the Python one).",
    },
    "C10": {
        "level": "exploration",
        "technique": "round-trip monitor + byte-for-byte comparison with an independent encoder/decoder; truncation/extension sweep of witness encodings",
        "text": "Every codec pair is exercised on boundary and random values (Fr incl. leading-zero encodings, vectors of length 0..1000, byte vectors to 1 MB, usize at 2^32/2^63 boundaries, witnesses of several depths, proof values, identity tuples, JSON forms); bytes are compared with an encoder written from the documented layouts; outputs of a live instance are decoded by the independent decoder; every truncation length and 1..40 trailing bytes of witness encodings - also of encodings whose index vector is shorter or longer than the path, and whether or not the full encoding decodes - must not decode; RLN::get_rln_witness_json / get_rln_witness_bigint_json, rln_witness_from_values on tree proofs and str_to_fr (decimal / hexadecimal text) are compared with the independent encoders.",
        "note": "Trusted: transcription of the documented layouts. A panic on a truncated witness counts as 'did not succeed' (crash-freedom is C12/C13).",
    },
    "C14": {
        "level": "exploration",
        "technique": "relation monitor (reference Poseidon) + independent re-derivation of seeded identities (Keccak-256/ChaCha20/rejection sampling) + cross-thread/process/entry-point equality + distinctness sets",
        "text": "Seeded identities for boundary seeds (empty, 1 byte, block boundaries, one-bit differences, trailing zero) and random seeds are compared with an independent derivation and the documented vectors, re-derived in 16 threads, 4 child processes, through RLN methods and the FFI; unseeded identities from all entry points are checked for the commitment relations, canonical encodings and distinctness; unseeded calls made right after 0..3 seeded calls on the same thread (8 threads making the same calls) must lie outside the seeded generator's stream (first 24 elements, computed from the specification) and be distinct across threads.",
        "note": "Trusted: reference derivation per DESIGN.md Appendix A; documented vectors = pinned values in rln/tests.",
    },
    "C20": {
        "level": "exploration",
        "technique": "random-program differential monitor: generated witness graphs evaluated by zerokit (serialize -> calc_witness, graph::evaluate) vs big-integer reference interpreter; storage round-trip equality; workload repeated on a build with integer-overflow checks on",
        "text": "Tens of thousands of random well-formed DAGs (all supported operators, 1..5000 nodes, repeated outputs, arbitrary input layouts, three node layouts incl. scattered Input nodes) are serialised, deserialised (equality) and evaluated through both paths on boundary-heavy and random assignments with shuffled named inputs; outputs are compared with a node-by-node reference interpretation; divergences are localised to the first differing node; the in-memory graph is also evaluated with every other constant held as a plain integer node (Node::Constant).",
        "note": "Trusted: circomref semantics (shared with C19). Graphs referencing undeclared input positions are not generated (undefined by the statement).",
    },
    "C19": {
        "level": "exploration",
        "technique": "differential runtime monitor: both graph evaluators vs big-integer reference of circom semantics over the full boundary grid (all pairs) + random operands, panics caught; workload repeated on a build with integer-overflow checks on",
        "text": "Every operator of eval and eval_fr is executed on all pairs of the statement's boundary grid (750 values in thorough, 60 in quick), exhaustive shift counts around 0..260 / p-260..p-1 / p/2, all triples of a 12-value grid for the ternary, and random operands; each result is compared with an independent big-integer implementation of circom's documented semantics; panics are violations. Exhaustive on the stated grid, sampled beyond it.",
        "note": "Trusted: the reference semantics transcription (circom docs + reference field library behaviour for reverse shifts), num-bigint. Pow/Id are outside eval_fr's accepted operators.",
    },
}
