HOOKS = {
    "guard": "--cfg zerokit_verif",
    "enable": "RUSTFLAGS=\"--cfg zerokit_verif\" cargo build --release --offline (set by ./check for every harness build; the harness path-depends on /repo/rln and /repo/utils)",
    "baseline_off_cmd": "cd /repo && cargo test --workspace --no-fail-fast --offline",
    "source_commits": ["02b61d3"],
    "add_only": True,
}
NOTES = ("Runtime monitoring family. ./check <id> quick|thorough rebuilds the harness against /repo's working tree, runs the "
         "workload with monitors, applies known_findings.json and writes evidence/<id>.json. Exit 2 = inconclusive (machinery failure "
         "or too few observations), never a verdict.")
NOT_APPLICABLE = {}
CHECKS = {
    "C19": {
        "level": "exploration",
        "technique": "differential runtime monitor: both graph evaluators vs big-integer reference of circom semantics over the full boundary grid (all pairs) + random operands, panics caught",
        "text": "Every operator of eval and eval_fr is executed on all pairs of the statement's boundary grid (750 values in thorough, 60 in quick), exhaustive shift counts around 0..260 / p-260..p-1 / p/2, all triples of a 12-value grid for the ternary, and random operands; each result is compared with an independent big-integer implementation of circom's documented semantics; panics are violations. Exhaustive on the stated grid, sampled beyond it.",
        "note": "Trusted: the reference semantics transcription (circom docs + reference field library behaviour for reverse shifts), num-bigint. Pow/Id are outside eval_fr's accepted operators.",
    },
}
