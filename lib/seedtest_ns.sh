#!/bin/bash
# usage: lib/seedtest_ns.sh <slot> <patch.diff> <tier> <prop> [<prop>...]
# Like seedtest.sh, but leaves /repo and /verif alone: the patch is applied to a scratch worktree, /verif is copied to a
# scratch slot (with its warm build output), and the checks run inside a private mount namespace in which the worktree is
# mounted over /repo and the copy over /verif. Several slots can run side by side. Calibration only - never evidence.
slot=$1; patch=$(readlink -f $2); tier=$3; shift 3
base=/tmp/seedns; wt=$base/repo-$slot; v2=$base/verif-$slot
mkdir -p $base
git -C /repo worktree remove --force $wt 2>/dev/null; rm -rf $wt
git -C /repo worktree add --detach $wt HEAD >/dev/null 2>&1 || exit 2
git -C $wt apply $patch || { echo "patch does not apply"; git -C /repo worktree remove --force $wt; exit 2; }
mkdir -p $v2
rsync -a --delete --exclude 'work/run-*' --exclude 'work/cov' --exclude 'harness/target-cov' --exclude 'work/bin/*-cov' --exclude 'work/evidence*' /verif/ $v2/
for p in "$@"; do
  s=$(date +%s)
  out=$(unshare -m bash -c "mount --bind $wt /repo && mount --bind $v2 /verif && cd /verif && ./check $p $tier 2>/dev/null" | grep -E "^\[check\]|^VIOLATION|^INCONCLUSIVE" | cut -c1-260)
  echo "$out" | head -6
  echo "   ($p $tier: $(( $(date +%s) - s )) s)"
done
git -C /repo worktree remove --force $wt
