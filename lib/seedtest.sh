#!/bin/bash
# usage: lib/seedtest.sh <patch.diff> <tier> <prop> [<prop>...]
# applies a seeded change to /repo, runs the given checks, reverts /repo. Prints one line per check.
patch=$1; tier=$2; shift 2
cd /repo || exit 2
if ! git diff --quiet; then echo "/repo is dirty"; exit 2; fi
git apply "$patch" || { echo "patch does not apply"; exit 2; }
# evidence written while a seeded change is applied must not replace the evidence of the unchanged tree
rm -rf /verif/work/evidence.bak; cp -r /verif/evidence /verif/work/evidence.bak
trap 'git -C /repo checkout -- . ; rm -rf /verif/evidence; mv /verif/work/evidence.bak /verif/evidence' EXIT
cd /verif
for p in "$@"; do
  s=$(date +%s)
  out=$(./check $p $tier 2>/dev/null | grep -E "^\[check\]|^VIOLATION|^INCONCLUSIVE" | cut -c1-260)
  echo "$out" | head -6
  echo "   ($p $tier: $(( $(date +%s) - s )) s)"
done
rm -f /verif/replays/*.json
