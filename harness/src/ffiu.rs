//! Helpers to call the C FFI the way a C caller would (raw pointers, uninitialised outputs).
#![allow(dead_code)]

use rln::ffi::Buffer;
use std::mem::MaybeUninit;

pub fn buf(b: &[u8]) -> Buffer {
    Buffer { ptr: b.as_ptr(), len: b.len() }
}

/// Reads an output buffer written by the FFI (copies `len` bytes from `ptr`).
pub fn read_out(out: &MaybeUninit<Buffer>) -> Vec<u8> {
    let b = unsafe { out.assume_init_ref() };
    if b.len == 0 {
        return vec![];
    }
    assert!(!b.ptr.is_null(), "FFI returned null pointer with non-zero length");
    unsafe { std::slice::from_raw_parts(b.ptr, b.len) }.to_vec()
}

/// no-context FFI function with one input and one output buffer
pub fn call_io(f: extern "C" fn(*const Buffer, *mut Buffer) -> bool, input: &[u8]) -> Option<Vec<u8>> {
    let ib = buf(input);
    let mut out = MaybeUninit::<Buffer>::uninit();
    if f(&ib, out.as_mut_ptr()) {
        Some(read_out(&out))
    } else {
        None
    }
}
