//! Driver of the reference circom witness generator (rln.wasm under node), see oracles/refgen.js.
#![allow(dead_code)]

use crate::common::*;
use ark_bn254::Fr;
use num_bigint::BigUint;
use serde_json::{json, Value};
use sha2::{Digest, Sha256};
use std::io::{BufRead, BufReader, Write};
use std::process::{Child, ChildStdin, ChildStdout, Command, Stdio};

pub struct NodeRef {
    child: Child,
    stdin: ChildStdin,
    stdout: BufReader<ChildStdout>,
    pub hello: Value,
    next_id: u64,
    pub queries: u64,
}

#[derive(Debug, Clone)]
pub enum RefOut {
    /// accepted: head (first 8 witness entries), sha256 digest of the full vector, optional full vector
    Ok { head: Vec<BigUint>, digest: String, full: Option<Vec<BigUint>> },
    /// rejected by an assert of the circuit (or malformed input); message of the generator
    Rejected(String),
}

pub fn verif_dir() -> String {
    std::env::var("VERIF_DIR").unwrap_or_else(|_| "/verif".into())
}
pub fn repo_dir() -> String {
    std::env::var("VERIF_REPO").unwrap_or_else(|_| "/repo".into())
}

impl NodeRef {
    pub fn spawn() -> Result<NodeRef, String> {
        let js = format!("{}/oracles/refgen.js", verif_dir());
        let wasm = format!("{}/rln/resources/tree_height_20/rln.wasm", repo_dir());
        let mut child = Command::new("node")
            .arg(&js)
            .arg(&wasm)
            .stdin(Stdio::piped())
            .stdout(Stdio::piped())
            .stderr(Stdio::null())
            .spawn()
            .map_err(|e| format!("cannot spawn node: {e}"))?;
        let stdin = child.stdin.take().unwrap();
        let mut stdout = BufReader::new(child.stdout.take().unwrap());
        let mut line = String::new();
        stdout.read_line(&mut line).map_err(|e| e.to_string())?;
        let hello: Value = serde_json::from_str(&line).map_err(|e| format!("bad hello from node: {e}: {line}"))?;
        if hello["witness_size"].as_u64() != Some(5844) || hello["prime"].as_str() != Some(P_DEC) {
            return Err(format!("unexpected reference generator: {hello}"));
        }
        Ok(NodeRef { child, stdin, stdout, hello, next_id: 0, queries: 0 })
    }

    pub fn query_json(&mut self, inputs: Value, full: bool) -> Result<RefOut, String> {
        self.next_id += 1;
        self.queries += 1;
        let req = json!({"id": self.next_id, "inputs": inputs, "want": if full {"full"} else {"digest"}});
        writeln!(self.stdin, "{}", req).map_err(|e| e.to_string())?;
        self.stdin.flush().map_err(|e| e.to_string())?;
        let mut line = String::new();
        let n = self.stdout.read_line(&mut line).map_err(|e| e.to_string())?;
        if n == 0 {
            return Err("node closed the pipe".into());
        }
        let v: Value = serde_json::from_str(&line).map_err(|e| format!("bad reply: {e}"))?;
        if v["id"].as_u64() != Some(self.next_id) {
            return Err("reply id mismatch".into());
        }
        if v["ok"].as_bool() == Some(true) {
            let parse = |a: &Value| -> Vec<BigUint> {
                a.as_array().unwrap().iter().map(|s| s.as_str().unwrap().parse().unwrap()).collect()
            };
            Ok(RefOut::Ok {
                head: parse(&v["head"]),
                digest: v["digest"].as_str().unwrap().to_string(),
                full: if full { Some(parse(&v["witness"])) } else { None },
            })
        } else {
            Ok(RefOut::Rejected(v["error"].as_str().unwrap_or("?").to_string()))
        }
    }

    /// Query with the seven named RLN inputs.
    pub fn query_rln(&mut self, w: &crate::codec::Witness, full: bool) -> Result<RefOut, String> {
        self.query_json(rln_inputs_json(w), full)
    }
}

impl Drop for NodeRef {
    fn drop(&mut self) {
        let _ = self.child.kill();
        let _ = self.child.wait();
    }
}

pub fn rln_inputs_json(w: &crate::codec::Witness) -> Value {
    json!({
        "identitySecret": fr_s(&w.secret),
        "userMessageLimit": fr_s(&w.limit),
        "messageId": fr_s(&w.msg_id),
        "pathElements": w.path.iter().map(fr_s).collect::<Vec<_>>(),
        "identityPathIndex": w.bits.iter().map(|b| b.to_string()).collect::<Vec<_>>(),
        "x": fr_s(&w.x),
        "externalNullifier": fr_s(&w.ext),
    })
}

/// sha256 over the 32-byte LE encodings -- the digest refgen.js computes over its witness.
pub fn digest_frs(v: &[Fr]) -> String {
    let mut h = Sha256::new();
    for x in v {
        h.update(fr_le32(x));
    }
    hex(&h.finalize())
}

pub fn sha256_hex(b: &[u8]) -> String {
    let mut h = Sha256::new();
    h.update(b);
    hex(&h.finalize())
}
