//! C13 -- untrusted verification inputs are rejected without crashing, in one encoding.
//! Crash monitor (catch_unwind) over hostile byte strings handed to verify, verify_rln_proof,
//! verify_with_roots (both arguments) and recover_id_secret (both arguments); alias monitor:
//! encodings v + k*p of each public value must not be accepted.
#![cfg(not(feature = "stateless"))]

use crate::codec::*;
use crate::common::*;
use crate::props::c01::{self, Ctx};
use crate::props::c02::{v_raw, v_rln, v_roots, V};

use ark_bn254::Fr;
use num_bigint::BigUint;
use rand::Rng;
use serde_json::json;
use std::io::Cursor;

fn v_recover(c: &Ctx, a: &[u8], b: &[u8]) -> V {
    match catch(|| {
        let mut out = vec![];
        c.rln.recover_id_secret(Cursor::new(a.to_vec()), Cursor::new(b.to_vec()), &mut out).map(|_| out)
    }) {
        Ok(Ok(_)) => V::False, // some result / empty: not a crash
        Ok(Err(_)) => V::Err,
        Err(p) => V::Panic(format!("{}|{}", p.file(), p.short_msg())),
    }
}

fn region(pos: usize) -> &'static str {
    match pos {
        0..=127 => "proof",
        128..=287 => "values",
        288..=295 => "siglen",
        _ => "signal",
    }
}

struct Mon<'a> {
    rep: &'a mut Rep,
}

impl<'a> Mon<'a> {
    fn crash(&mut self, entry: &str, kind: &str, v: &V, detail: serde_json::Value) {
        self.rep.ev();
        self.rep.stratum(format!("{entry}|{kind}"));
        if let V::Panic(f) = v {
            self.rep.violation(format!("{entry}:panic:{kind}:{}", f.split('|').next().unwrap()), json!({"panic": f, "input": detail}));
        }
    }
}

pub fn run(rep: &mut Rep) {
    rep.rule = "hostile inputs derived from valid messages: every truncation length of verification requests (all entry points, both arguments of verify_with_roots / recover_id_secret); declared signal length in {0,1,len-1,len+1,2^32-1,2^32,2^63,2^64-1,...}; each 32-byte field and the proof replaced by random bytes, 0xFF fill, p, p+1, 2^256-1; compressed-point flag bit patterns; root lists of every length 0..100 bytes; over-long inputs (crash-freedom only); random bytes; and for each of the five public values every alias v + k*p below 2^256, alone and in pairs, which must not be accepted. distinct_nontrivial = distinct (entry point, input kind/region) keys".into();
    rep.assumptions = vec!["a panic caught by catch_unwind is a crash; aborts are covered by the FFI child-process leg of C11".into(), "trailing bytes after a well-formed request are driven for crash-freedom only".into()];
    let thorough = rep.thorough();
    let mut rng = rng_for(rep.seed, "c13");
    let mut c = match Ctx::new() {
        Ok(c) => c,
        Err(e) => {
            rep.inconclusive(e);
            return;
        }
    };
    let p = p();
    // two valid messages of the same member (same external nullifier), different signals
    let cases = c01::gen_cases(&mut rng, 2);
    let mut case = cases[1].clone();
    case.place = 0;
    case.signal = b"first signal".to_vec();
    if c01::place(&mut c, &case, &mut rng).is_err() {
        rep.inconclusive("could not place the member".to_string());
        return;
    }
    let root = c.root();
    let mut msgs = vec![];
    for sig in [b"first signal".to_vec(), b"second signal, longer than the first".to_vec()] {
        let req = enc_prove_request(&case.secret, case.index as u64, &Fr::from(case.limit), &Fr::from(case.id), &case.ext, &sig);
        let mut m = vec![];
        match catch(|| c.rln.generate_rln_proof(Cursor::new(req), &mut m).map_err(|e| e.to_string())) {
            Ok(Ok(())) => msgs.push((m, sig)),
            _ => {
                rep.inconclusive("could not generate the base messages (C01 territory)".to_string());
                return;
            }
        }
    }
    let (msg, signal) = msgs[0].clone();
    let (msg2, signal2) = msgs[1].clone();
    let req = enc_verify_request(&msg, &signal);
    let req2 = enc_verify_request(&msg2, &signal2);
    let roots1 = enc_fr(&root);
    if v_rln(&c, &req) != V::True || v_roots(&c, &req, &roots1) != V::True || v_raw(&c, &msg) != V::True {
        rep.inconclusive("control failed: base message not accepted".to_string());
        return;
    }
    let mut m = Mon { rep };
    // ---- truncations
    let cuts: Vec<usize> = (0..=req.len()).collect();
    for &cut in &cuts {
        let t = &req[..cut];
        let kind = format!("truncated@{}", region(cut.saturating_sub(1).min(req.len() - 1)));
        m.crash("verify_rln_proof", &kind, &v_rln(&c, t), json!({"cut": cut, "full_len": req.len()}));
        m.crash("verify_with_roots(msg)", &kind, &v_roots(&c, t, &roots1), json!({"cut": cut}));
        if cut <= msg.len() {
            m.crash("verify", &kind, &v_raw(&c, &msg[..cut]), json!({"cut": cut}));
            m.crash("recover_id_secret(arg1)", &kind, &v_recover(&c, &msg[..cut], &msg2), json!({"cut": cut}));
            m.crash("recover_id_secret(arg2)", &kind, &v_recover(&c, &msg2, &msg[..cut]), json!({"cut": cut}));
        }
        // a truncated request must not be accepted (the signal is shorter than declared)
        if cut < req.len() && v_rln(&c, t) == V::True {
            m.rep.violation("verify_rln_proof:accepts-truncated-request", json!({"cut": cut}));
        }
        if cut < req.len() && v_roots(&c, t, &roots1) == V::True {
            m.rep.violation("verify_with_roots:accepts-truncated-request", json!({"cut": cut}));
        }
    }
    // ---- truncations of messages whose signal is empty / one byte long: every proper prefix, through both
    // request-taking entry points (the prefixes 288..295 of an empty-signal request end inside the length field)
    for sig in [Vec::new(), vec![0x5au8], vec![0u8; 9]] {
        let preq = enc_prove_request(&case.secret, case.index as u64, &Fr::from(case.limit), &Fr::from(case.id), &case.ext, &sig);
        let mut mm = vec![];
        match catch(|| c.rln.generate_rln_proof(Cursor::new(preq), &mut mm).map_err(|e| e.to_string())) {
            Ok(Ok(())) => {}
            _ => {
                m.rep.inconclusive("could not generate a short-signal base message (C01 territory)".to_string());
                continue;
            }
        }
        let full = enc_verify_request(&mm, &sig);
        if v_rln(&c, &full) != V::True {
            m.rep.inconclusive("control failed: short-signal base message not accepted".to_string());
            continue;
        }
        for cut in 0..full.len() {
            let t = &full[..cut];
            let kind = format!("truncated(signal_len={})@{}", sig.len(), region(cut.saturating_sub(1).min(full.len() - 1)));
            let v1 = v_rln(&c, t);
            let v2 = v_roots(&c, t, &roots1);
            m.crash("verify_rln_proof", &kind, &v1, json!({"cut": cut, "full_len": full.len()}));
            m.crash("verify_with_roots(msg)", &kind, &v2, json!({"cut": cut, "full_len": full.len()}));
            if v1 == V::True {
                m.rep.violation("verify_rln_proof:accepts-truncated-request", json!({"cut": cut, "full_len": full.len(), "signal_len": sig.len()}));
            }
            if v2 == V::True {
                m.rep.violation("verify_with_roots:accepts-truncated-request", json!({"cut": cut, "full_len": full.len(), "signal_len": sig.len()}));
            }
        }
    }
    // ---- declared signal length
    let sl = signal.len() as u64;
    for (kind, declared) in [("0", 0u64), ("1", 1), ("len-1", sl - 1), ("len+1", sl + 1), ("2^32-1", (1 << 32) - 1), ("2^32", 1 << 32), ("2^63", 1 << 63), ("2^64-1", u64::MAX), ("2^64-295", u64::MAX - 294), ("2^64-296", u64::MAX - 295), ("2^64-8", u64::MAX - 7), ("len+2^32", sl + (1 << 32)), ("len+2^33", sl + (1 << 33)), ("len+2^40", sl + (1 << 40)), ("len+2^56", sl + (1 << 56)), ("len+2^63", sl + (1 << 63)), ("len+2^16", sl + (1 << 16)), ("len+2^31", sl + (1 << 31))] {
        let mut r2 = msg.clone();
        r2.extend(enc_u64(declared));
        r2.extend_from_slice(&signal);
        let k = format!("declared-signal-length:{kind}");
        let v = v_rln(&c, &r2);
        m.crash("verify_rln_proof", &k, &v, json!({"declared": declared, "present": sl}));
        if v == V::True && declared != sl {
            m.rep.violation("verify_rln_proof:accepts-inconsistent-signal-length", json!({"declared": declared, "present": sl}));
        }
        let v2 = v_roots(&c, &r2, &roots1);
        m.crash("verify_with_roots(msg)", &k, &v2, json!({"declared": declared}));
        if v2 == V::True && declared != sl {
            m.rep.violation("verify_with_roots:accepts-inconsistent-signal-length", json!({"declared": declared, "present": sl}));
        }
    }
    // ---- field / proof replacement
    let fills: Vec<(String, Vec<u8>)> = vec![
        ("ff".into(), vec![0xff; 32]),
        ("p".into(), big_to_le32(&p).to_vec()),
        ("p+1".into(), big_to_le32(&(&p + 1u32)).to_vec()),
        ("2^256-1".into(), vec![0xff; 32]),
        ("2^255".into(), { let mut v = vec![0u8; 32]; v[31] = 0x80; v }),
        ("random".into(), rand_bytes(&mut rng, 32)),
        ("zero".into(), vec![0u8; 32]),
    ];
    for field in 0..9usize {
        // fields 0..3: the four 32-byte words of the compressed proof; 4..8: public values
        for (fl, fill) in fills.iter() {
            let mut m2 = msg.clone();
            m2[32 * field..32 * field + 32].copy_from_slice(fill);
            let r2 = enc_verify_request(&m2, &signal);
            let k = format!("field{}={}", field, fl);
            m.crash("verify", &k, &v_raw(&c, &m2), json!({"message": hex(&m2)}));
            m.crash("verify_rln_proof", &k, &v_rln(&c, &r2), json!({"message": hex(&m2)}));
            m.crash("verify_with_roots(msg)", &k, &v_roots(&c, &r2, &roots1), json!({"message": hex(&m2)}));
            m.crash("recover_id_secret(arg1)", &k, &v_recover(&c, &m2, &msg2), json!({"message": hex(&m2)}));
        }
    }
    // flag-bit patterns of the compressed points (top two bits of the last byte of each point encoding)
    for (pt, last) in [("A", 31usize), ("B", 95), ("C", 127)] {
        for flags in 0..4u8 {
            let mut m2 = msg.clone();
            m2[last] = (m2[last] & 0x3f) | (flags << 6);
            let k = format!("point{pt}-flags={flags}");
            let v = v_raw(&c, &m2);
            m.crash("verify", &k, &v, json!({"message": hex(&m2)}));
            if v == V::True && m2 != msg {
                m.rep.violation("verify:accepts-proof-with-altered-flag-bits", json!({"point": pt, "flags": flags}));
            }
        }
    }
    // ---- root lists
    for len in 0..=100usize {
        let mut roots = rand_bytes(&mut rng, len);
        if len >= 32 {
            roots[..32].copy_from_slice(&roots1);
        }
        m.crash("verify_with_roots(roots)", &format!("root-list-len%32={}", len % 32), &v_roots(&c, &req, &roots), json!({"roots_len": len}));
        // the same lengths without the root (a decoder that stops at the first match never reaches the tail
        // otherwise) and with the root as the last whole element
        let absent = rand_bytes(&mut rng, len);
        m.crash("verify_with_roots(roots)", &format!("root-list-without-root-len%32={}", len % 32), &v_roots(&c, &req, &absent), json!({"roots_len": len, "root": "absent"}));
        if len >= 32 {
            let mut last = rand_bytes(&mut rng, len);
            let at = (len / 32 - 1) * 32;
            last[at..at + 32].copy_from_slice(&roots1);
            m.crash("verify_with_roots(roots)", &format!("root-list-root-last-len%32={}", len % 32), &v_roots(&c, &req, &last), json!({"roots_len": len, "root": "last whole element"}));
        }
    }
    for fill in [vec![0xffu8; 64], big_to_le32(&p).to_vec(), vec![0xffu8; 31]] {
        m.crash("verify_with_roots(roots)", "root-list-noncanonical", &v_roots(&c, &req, &fill), json!({"roots": hex(&fill)}));
    }
    // ---- over-long inputs (crash-freedom only) and random bytes
    for extra in [1usize, 7, 8, 32, 1000] {
        let mut r2 = req.clone();
        r2.extend(rand_bytes(&mut rng, extra));
        m.crash("verify_rln_proof", "over-long", &v_rln(&c, &r2), json!({"extra": extra}));
        m.crash("verify_with_roots(msg)", "over-long", &v_roots(&c, &r2, &roots1), json!({"extra": extra}));
        let mut m2 = msg.clone();
        m2.extend(rand_bytes(&mut rng, extra));
        m.crash("verify", "over-long", &v_raw(&c, &m2), json!({"extra": extra}));
        m.crash("recover_id_secret(arg1)", "over-long", &v_recover(&c, &m2, &msg2), json!({"extra": extra}));
    }
    let nrand = if thorough { 60_000 } else { 1_500 };
    for k in 0..nrand {
        let len = match k % 10 {
            0 => 0,
            1 => rng.gen_range(1..128),
            2 => 128,
            3 => rng.gen_range(129..288),
            4 => 288,
            5 => rng.gen_range(289..296),
            6 => 296,
            _ => rng.gen_range(296..600),
        };
        let mut b = rand_bytes(&mut rng, len);
        // half of them keep a valid prefix so that parsing goes deeper
        if k % 2 == 0 {
            let keep = rng.gen_range(0..=len.min(req.len()));
            b[..keep].copy_from_slice(&req[..keep]);
        }
        let v = match k % 4 {
            0 => ("verify_rln_proof", v_rln(&c, &b)),
            1 => ("verify_with_roots(msg)", v_roots(&c, &b, &roots1)),
            2 => ("verify", v_raw(&c, &b)),
            _ => ("recover_id_secret(arg1)", v_recover(&c, &b, &msg2)),
        };
        m.crash(v.0, &format!("random(len~{})", len / 100), &v.1, json!({"input": hex_short(&b)}));
        if k % 50 == 0 {
            m.crash("recover_id_secret(arg2)", "random", &v_recover(&c, &msg, &b), json!({"input": hex_short(&b)}));
            m.crash("verify_with_roots(roots)", "random", &v_roots(&c, &req2, &b), json!({"input": hex_short(&b)}));
        }
    }
    // ---- aliases: v + k*p for each public value, alone and in pairs
    let pv = dec_message(&msg).unwrap().1;
    let vals = [pv.root, pv.ext, pv.x, pv.y, pv.nullifier];
    let names = ["root", "external_nullifier", "x", "y", "nullifier"];
    let two256 = BigUint::from(1u8) << 256;
    let mut alias_enc: Vec<Vec<(u32, [u8; 32])>> = vec![];
    for v in vals.iter() {
        let mut e = vec![];
        for k in 1u32..=6 {
            let a = fr_to_big(v) + &p * k;
            if a < two256 {
                e.push((k, big_to_le32(&a)));
            }
        }
        alias_enc.push(e);
    }
    let mut alias_total = 0u64;
    for (fi, encs) in alias_enc.iter().enumerate() {
        for (k, enc) in encs {
            let mut m2 = msg.clone();
            m2[128 + 32 * fi..128 + 32 * fi + 32].copy_from_slice(enc);
            let r2 = enc_verify_request(&m2, &signal);
            alias_total += 1;
            for (which, v) in [("verify", v_raw(&c, &m2)), ("verify_rln_proof", v_rln(&c, &r2)), ("verify_with_roots", v_roots(&c, &r2, &roots1))] {
                m.rep.ev();
                m.rep.stratum(format!("alias|{}|k={k}|{which}", names[fi]));
                match v {
                    V::True => m.rep.violation(format!("{which}:accepts-alias-of-{}", names[fi]), json!({"field": names[fi], "k": k, "message": hex(&m2)})),
                    V::Panic(f) => m.rep.violation(format!("{which}:panic:alias:{}", f.split('|').next().unwrap()), json!({"field": names[fi], "k": k})),
                    _ => {}
                }
            }
            // pairs
            for (fj, encs2) in alias_enc.iter().enumerate().skip(fi + 1) {
                if let Some((k2, enc2)) = encs2.first() {
                    let mut m3 = m2.clone();
                    m3[128 + 32 * fj..128 + 32 * fj + 32].copy_from_slice(enc2);
                    let r3 = enc_verify_request(&m3, &signal);
                    m.rep.ev();
                    if v_rln(&c, &r3) == V::True || v_raw(&c, &m3) == V::True {
                        m.rep.violation(format!("verify:accepts-alias-pair-{}+{}", names[fi], names[fj]), json!({"k": [k, k2]}));
                    }
                }
            }
        }
    }
    m.rep.note("alias_encodings", json!(alias_total));
    // the external nullifier is chosen by the application and may be a small number: messages whose external
    // nullifier is 0, 1, 7, 2^64, 2^190 or p-1 and every alias of it (small values have the most aliases, and their
    // alias v + p shares its most significant limb with p)
    {
        let small: Vec<BigUint> = vec![BigUint::from(0u8), BigUint::from(1u8), BigUint::from(7u8), BigUint::from(1u8) << 64, BigUint::from(1u8) << 190, &p - 1u32];
        let take = if thorough { small.len() } else { 3 };
        for (si, ev) in small.iter().take(take).enumerate() {
            let extf = big_to_fr(ev);
            let sig = format!("small-ext-{si}").into_bytes();
            let preq = enc_prove_request(&case.secret, case.index as u64, &Fr::from(case.limit), &Fr::from(case.id), &extf, &sig);
            let mut mm = vec![];
            if !matches!(catch(|| c.rln.generate_rln_proof(Cursor::new(preq), &mut mm).map_err(|e| e.to_string())), Ok(Ok(()))) {
                m.rep.inconclusive("could not generate a message with a small external nullifier".to_string());
                continue;
            }
            let vreq = enc_verify_request(&mm, &sig);
            if v_rln(&c, &vreq) != V::True {
                m.rep.inconclusive("control failed: message with a small external nullifier not accepted".to_string());
                continue;
            }
            for k in 1u32..=6 {
                let a = ev + &p * k;
                if a >= two256 {
                    break;
                }
                let mut m2 = mm.clone();
                m2[128 + 32..128 + 64].copy_from_slice(&big_to_le32(&a));
                let r2 = enc_verify_request(&m2, &sig);
                for (which, v) in [("verify", v_raw(&c, &m2)), ("verify_rln_proof", v_rln(&c, &r2)), ("verify_with_roots", v_roots(&c, &r2, &roots1))] {
                    m.rep.ev();
                    m.rep.stratum(format!("alias|small-external_nullifier#{si}|k={k}|{which}"));
                    if v == V::True {
                        m.rep.violation(format!("{which}:accepts-alias-of-external_nullifier"), json!({"value": ev.to_string(), "k": k, "message": hex(&m2)}));
                    }
                }
                // a second message with the alias must not be usable for recovery against the original either way
                m.crash("recover_id_secret(pair)", "small-ext-alias", &v_recover(&c, &mm, &m2), json!({"k": k}));
            }
        }
    }
    // recovery: aliases must not crash it, and an alias of x/y must not change the result silently into a crash
    for (fi, encs) in alias_enc.iter().enumerate() {
        if let Some((_, enc)) = encs.first() {
            let mut m2 = msg.clone();
            m2[128 + 32 * fi..128 + 32 * fi + 32].copy_from_slice(enc);
            m.crash("recover_id_secret(arg1)", &format!("alias-{}", names[fi]), &v_recover(&c, &m2, &msg2), json!({}));
        }
    }
    // recovery on pairs that agree in some fields: every single field of message 1 replaced by the field of
    // message 2 / altered by one, both orders (e.g. equal x with different y must be an error, not a crash)
    {
        let names5 = ["root", "external_nullifier", "x", "y", "nullifier"];
        for (fi, fname) in names5.iter().enumerate() {
            for variant in ["+1", "from-other", "zero"] {
                let mut a = msg.clone();
                let (lo, hi) = (128 + 32 * fi, 128 + 32 * fi + 32);
                match variant {
                    "+1" => {
                        let v = dec_message(&msg).unwrap().1;
                        let f = [v.root, v.ext, v.x, v.y, v.nullifier][fi] + Fr::from(1u64);
                        a[lo..hi].copy_from_slice(&enc_fr(&f));
                    }
                    "from-other" => a[lo..hi].copy_from_slice(&msg2[lo..hi]),
                    _ => a[lo..hi].copy_from_slice(&[0u8; 32]),
                }
                for (x, y, order) in [(&msg, &a, "orig,altered"), (&a, &msg, "altered,orig"), (&a, &a, "altered,altered"), (&a, &msg2, "altered,other")] {
                    m.crash("recover_id_secret(pair)", &format!("{fname}{variant}|{order}"), &v_recover(&c, x, y), json!({"field": fname, "variant": variant, "order": order}));
                }
            }
        }
        // message 2 with message 1's x (equal x, different y and nullifier fields as they are)
        let mut b2 = msg2.clone();
        b2[128 + 64..128 + 96].copy_from_slice(&msg[128 + 64..128 + 96]);
        m.crash("recover_id_secret(pair)", "equal-x-different-y", &v_recover(&c, &msg, &b2), json!({}));
        m.crash("recover_id_secret(pair)", "equal-x-different-y|swapped", &v_recover(&c, &b2, &msg), json!({}));
    }
    // the instance still works
    if v_rln(&c, &req) != V::True || v_rln(&c, &req2) != V::True {
        m.rep.violation("verify_rln_proof:valid-message-rejected-after-hostile-inputs", json!({}));
    }
    m.rep.sample(json!({"base_request_hex": hex_short(&req), "alias_example": {"field": "root", "k": 1, "bytes": hex(&alias_enc[0][0].1)}}));
    let _ = &mut c;
}
