use crate::common::Rep;

#[cfg(not(feature = "stateless"))]
pub mod c01;
#[cfg(not(feature = "stateless"))]
pub mod c02;
pub mod c03;
pub mod c04;
pub mod c05;
pub mod c09;
pub mod c10;
#[cfg(not(feature = "stateless"))]
pub mod c11;
#[cfg(not(feature = "stateless"))]
pub mod c12;
#[cfg(not(feature = "stateless"))]
pub mod c13;
pub mod c14;
#[cfg(all(not(feature = "stateless"), any(feature = "pm", feature = "full")))]
pub mod c16;
pub mod c17;
#[cfg(not(feature = "stateless"))]
pub mod c18;
pub mod c19;
pub mod c20;
pub mod ctree;

pub fn run(prop: &str, rep: &mut Rep, args: &[String]) -> bool {
    match prop {
        #[cfg(not(feature = "stateless"))]
        "C01" => c01::run(rep),
        #[cfg(not(feature = "stateless"))]
        "C02" => c02::run(rep),
        #[cfg(not(feature = "stateless"))]
        "C11" => c11::run(rep, args),
        #[cfg(not(feature = "stateless"))]
        "C12" => c12::run(rep),
        #[cfg(not(feature = "stateless"))]
        "C13" => c13::run(rep),
        "C03" => c03::run(rep),
        "C04" => c04::run(rep),
        "C05" => c05::run(rep),
        "C06" => ctree::run(rep, crate::trees::Focus::State, args),
        "C07" => ctree::run(rep, crate::trees::Focus::Proofs, args),
        "C08" => ctree::run(rep, crate::trees::Focus::Batch, args),
        "C15" => ctree::run(rep, crate::trees::Focus::Empties, args),
        "C09" => c09::run(rep),
        "C10" => c10::run(rep),
        "C14" => c14::run(rep),
        #[cfg(all(not(feature = "stateless"), any(feature = "pm", feature = "full")))]
        "C16" => c16::run(rep),
        "C17" => c17::run(rep, args),
        #[cfg(not(feature = "stateless"))]
        "C18" => c18::run(rep, args),
        "C19" => c19::run(rep),
        "C20" => c20::run(rep),
        _ => return false,
    }
    true
}

/// Sub-commands executed in child processes. Returns Some(exit code) if `name` is one.
pub fn subcommand(name: &str, args: &[String]) -> Option<i32> {
    match name {
        "c14-child" => Some(c14::child(args)),
        #[cfg(not(feature = "stateless"))]
        "c18-transcript" => Some(c18::transcript_child(args)),
        #[cfg(not(feature = "stateless"))]
        "c18-firstuse" => Some(c18::firstuse_child(args)),
        #[cfg(all(not(feature = "stateless"), any(feature = "pm", feature = "full")))]
        "c16-child" => Some(c16::child(args)),
        #[cfg(all(not(feature = "stateless"), any(feature = "pm", feature = "full")))]
        "c16-hold" => Some(c16::holder(args)),
        "selftest-ref" => {
            let bad = crate::refhash::self_test();
            println!("{:?}", bad);
            Some(if bad.is_empty() { 0 } else { 1 })
        }
        _ => None,
    }
}
