use crate::common::Rep;

pub mod c19;

pub fn run(prop: &str, rep: &mut Rep, _args: &[String]) -> bool {
    match prop {
        "C19" => c19::run(rep),
        _ => return false,
    }
    true
}

/// Sub-commands executed in child processes. Returns Some(exit code) if `name` is one.
pub fn subcommand(_name: &str, _args: &[String]) -> Option<i32> {
    None
}
