use crate::common::Rep;

#[cfg(not(feature = "stateless"))]
pub mod c01;
#[cfg(not(feature = "stateless"))]
pub mod c02;
pub mod c03;
pub mod c04;
pub mod c05;
pub mod c09;
pub mod c10;
#[cfg(not(feature = "stateless"))]
pub mod c11;
#[cfg(feature = "stateless")]
pub mod c11s;
#[cfg(not(feature = "stateless"))]
pub mod c12;
#[cfg(not(feature = "stateless"))]
pub mod c13;
pub mod c14;
#[cfg(all(not(feature = "stateless"), any(feature = "pm", feature = "full")))]
pub mod c16;
pub mod c17;
#[cfg(not(feature = "stateless"))]
pub mod c18;
pub mod c19;
pub mod c20;
pub mod ctree;

pub fn run(prop: &str, rep: &mut Rep, args: &[String]) -> bool {
    match prop {
        #[cfg(not(feature = "stateless"))]
        "C01" => c01::run(rep),
        #[cfg(not(feature = "stateless"))]
        "C02" => c02::run(rep),
        #[cfg(not(feature = "stateless"))]
        "C11" => c11::run(rep, args),
        #[cfg(not(feature = "stateless"))]
        "C12" => c12::run(rep),
        #[cfg(not(feature = "stateless"))]
        "C13" => c13::run(rep),
        #[cfg(feature = "stateless")]
        "C11S" => c11s::run(rep),
        "C03" => c03::run(rep),
        "C04" => c04::run(rep),
        "C05" => c05::run(rep),
        "C06" => ctree::run(rep, crate::trees::Focus::State, args),
        "C07" => ctree::run(rep, crate::trees::Focus::Proofs, args),
        "C08" => ctree::run(rep, crate::trees::Focus::Batch, args),
        "C15" => ctree::run(rep, crate::trees::Focus::Empties, args),
        "C09" => c09::run(rep),
        "C10" => c10::run(rep),
        "C14" => c14::run(rep),
        #[cfg(all(not(feature = "stateless"), any(feature = "pm", feature = "full")))]
        "C16" => c16::run(rep),
        "C17" => c17::run(rep, args),
        #[cfg(not(feature = "stateless"))]
        "C18" => c18::run(rep, args),
        "C19" => c19::run(rep),
        "C20" => c20::run(rep),
        _ => return false,
    }
    true
}

/// Sub-commands executed in child processes. Returns Some(exit code) if `name` is one.
pub fn subcommand(name: &str, args: &[String]) -> Option<i32> {
    match name {
        "c14-child" => Some(c14::child(args)),
        #[cfg(not(feature = "stateless"))]
        "c18-transcript" => Some(c18::transcript_child(args)),
        #[cfg(not(feature = "stateless"))]
        "c18-firstuse" => Some(c18::firstuse_child(args)),
        #[cfg(all(not(feature = "stateless"), any(feature = "pm", feature = "full")))]
        "c16-child" => Some(c16::child(args)),
        #[cfg(all(not(feature = "stateless"), any(feature = "pm", feature = "full")))]
        "c16-hold" => Some(c16::holder(args)),
        #[cfg(all(not(feature = "stateless"), any(feature = "pm", feature = "full")))]
        "c16-fsize" => Some(c16::fsize_child(args)),
        "miri-pure" => Some(miri_pure(args)),
        "selftest-ref" => {
            let bad = crate::refhash::self_test();
            println!("{:?}", bad);
            Some(if bad.is_empty() { 0 } else { 1 })
        }
        _ => None,
    }
}


/// Workload small enough for the Miri interpreter: the only `unsafe` code of the repository that can be reached
/// without Poseidon parameter generation, sled or the zkey -- the FFI buffer handling around `ffi::hash` -- plus
/// the pure byte codecs and graph operators (UB / overflow detection in the hand-written limb code).
/// Prints "MIRI-PURE-OK <n>" at the end; any UB makes Miri abort with a report.
pub fn miri_pure(args: &[String]) -> i32 {
    use crate::common::*;
    let n: usize = args.get(2).and_then(|s| s.parse().ok()).unwrap_or(40);
    let mut rng = rng_for(1, "miri");
    let mut done = 0usize;
    // FFI hash: input Buffer -> slice::from_raw_parts, output Vec leaked into a Buffer, read back by the caller
    for k in 0..n {
        let len = [0usize, 1, 31, 32, 33, 135, 136, 137, 300][k % 9];
        let data = rand_bytes(&mut rng, len);
        match crate::ffiu::call_io(rln::ffi::hash, &data) {
            Some(out) => {
                if out.len() != 32 || out != fr_le32(&crate::refhash::hash_to_field_ref(&data)).to_vec() {
                    println!("MIRI-PURE-MISMATCH ffi::hash len={len}");
                    return 1;
                }
            }
            None => {
                println!("MIRI-PURE-MISMATCH ffi::hash returned false");
                return 1;
            }
        }
        done += 1;
    }
    // codecs
    for k in 0..n {
        let v: Vec<ark_bn254::Fr> = (0..(k % 4)).map(|_| rand_fr(&mut rng)).collect();
        let enc = rln::utils::vec_fr_to_bytes_le(&v).unwrap();
        let (back, read) = rln::utils::bytes_le_to_vec_fr(&enc).unwrap();
        if back != v || read != enc.len() || enc != crate::codec::enc_vec_fr(&v) {
            println!("MIRI-PURE-MISMATCH vec_fr");
            return 1;
        }
        let b = rand_bytes(&mut rng, k % 9);
        let enc = rln::utils::vec_u8_to_bytes_le(&b).unwrap();
        if rln::utils::bytes_le_to_vec_u8(&enc).unwrap().0 != b {
            println!("MIRI-PURE-MISMATCH vec_u8");
            return 1;
        }
        done += 2;
    }
    // graph operators on boundary operands
    {
        use crate::circomref::{Ctx, ALL_OPS};
        let ctx = Ctx::new();
        let grid = small_grid();
        for k in 0..n {
            let a = &grid[(k * 7) % grid.len()].1;
            let b = &grid[(k * 13 + 5) % grid.len()].1;
            for op in ALL_OPS {
                if !c19::fr_accepts(op) {
                    continue;
                }
                let got = c19::to_rln(op).eval_fr(big_to_fr(a), big_to_fr(b));
                if fr_to_big(&got) != ctx.eval(op, a, b) {
                    println!("MIRI-PURE-MISMATCH {:?}", op);
                    return 1;
                }
                done += 1;
            }
        }
    }
    println!("MIRI-PURE-OK {done}");
    0
}
