use crate::common::Rep;

pub mod c03;
pub mod c04;
pub mod c05;
pub mod c09;
pub mod c10;
pub mod c14;
pub mod c19;
pub mod c20;
pub mod ctree;

pub fn run(prop: &str, rep: &mut Rep, args: &[String]) -> bool {
    match prop {
        "C03" => c03::run(rep),
        "C04" => c04::run(rep),
        "C05" => c05::run(rep),
        "C06" => ctree::run(rep, crate::trees::Focus::State, args),
        "C07" => ctree::run(rep, crate::trees::Focus::Proofs, args),
        "C08" => ctree::run(rep, crate::trees::Focus::Batch, args),
        "C15" => ctree::run(rep, crate::trees::Focus::Empties, args),
        "C09" => c09::run(rep),
        "C10" => c10::run(rep),
        "C14" => c14::run(rep),
        "C19" => c19::run(rep),
        "C20" => c20::run(rep),
        _ => return false,
    }
    true
}

/// Sub-commands executed in child processes. Returns Some(exit code) if `name` is one.
pub fn subcommand(name: &str, args: &[String]) -> Option<i32> {
    match name {
        "c14-child" => Some(c14::child(args)),
        "selftest-ref" => {
            let bad = crate::refhash::self_test();
            println!("{:?}", bad);
            Some(if bad.is_empty() { 0 } else { 1 })
        }
        _ => None,
    }
}
