//! C11 -- the C FFI is behaviourally identical to the Rust API.
//! Lockstep differential: one instance is driven only through rln::ffi::* with raw pointers and
//! uninitialised outputs (as a C caller would), one through RLN methods; each generated call runs on
//! the Rust side first under catch_unwind (a panic puts the call outside the quantifier), then the
//! success flag, output bytes / verdicts and the full observation of both instances are compared.
//! The same workload runs under AddressSanitizer (driver) to check the pointers/lengths handed out.
#![cfg(not(feature = "stateless"))]

use crate::codec::*;
use crate::common::*;
use crate::ffiu::{buf, read_out};
use crate::rlnx::*;
use ark_bn254::Fr;
use rand::Rng;
use rln::ffi::{self, Buffer};
use rln::public::RLN;
use serde_json::json;
use std::io::{Cursor, Write};
use std::mem::MaybeUninit;

#[derive(Clone, Debug)]
pub enum Call {
    SetLeaf(usize, Vec<u8>),
    DeleteLeaf(usize),
    GetLeaf(usize),
    SetNextLeaf(Vec<u8>),
    SetLeavesFrom(usize, Vec<u8>),
    InitTree(Vec<u8>),
    Atomic(usize, Vec<u8>, Vec<u8>),
    SeqAtomic(Vec<u8>, Vec<u8>),
    GetRoot,
    GetProof(usize),
    LeavesSet,
    SetMetadata(Vec<u8>),
    GetMetadata,
    Flush,
    SetTree(usize),
    Hash(Vec<u8>),
    Poseidon(Vec<u8>),
    KeyGen,
    ExtKeyGen,
    SeededKeyGen(Vec<u8>),
    SeededExtKeyGen(Vec<u8>),
    GenProof(Vec<u8>, Vec<u8>),
    GenProofWitness(Vec<u8>),
    Prove(Vec<u8>),
    Verify(Vec<u8>),
    VerifyRln(Vec<u8>),
    VerifyRoots(Vec<u8>, Vec<u8>),
    Recover(Vec<u8>, Vec<u8>),
}

impl Call {
    pub fn name(&self) -> &'static str {
        match self {
            Call::SetLeaf(..) => "set_leaf",
            Call::DeleteLeaf(..) => "delete_leaf",
            Call::GetLeaf(..) => "get_leaf",
            Call::SetNextLeaf(..) => "set_next_leaf",
            Call::SetLeavesFrom(..) => "set_leaves_from",
            Call::InitTree(..) => "init_tree_with_leaves",
            Call::Atomic(..) => "atomic_operation",
            Call::SeqAtomic(..) => "seq_atomic_operation",
            Call::GetRoot => "get_root",
            Call::GetProof(..) => "get_proof",
            Call::LeavesSet => "leaves_set",
            Call::SetMetadata(..) => "set_metadata",
            Call::GetMetadata => "get_metadata",
            Call::Flush => "flush",
            Call::SetTree(..) => "set_tree",
            Call::Hash(..) => "hash",
            Call::Poseidon(..) => "poseidon_hash",
            Call::KeyGen => "key_gen",
            Call::ExtKeyGen => "extended_key_gen",
            Call::SeededKeyGen(..) => "seeded_key_gen",
            Call::SeededExtKeyGen(..) => "seeded_extended_key_gen",
            Call::GenProof(..) => "generate_rln_proof",
            Call::GenProofWitness(..) => "generate_rln_proof_with_witness",
            Call::Prove(..) => "prove",
            Call::Verify(..) => "verify",
            Call::VerifyRln(..) => "verify_rln_proof",
            Call::VerifyRoots(..) => "verify_with_roots",
            Call::Recover(..) => "recover_id_secret",
        }
    }
    fn randomized(&self) -> bool {
        matches!(self, Call::KeyGen | Call::ExtKeyGen | Call::GenProof(..) | Call::GenProofWitness(..) | Call::Prove(..))
    }
    fn show(&self) -> String {
        let h = |b: &Vec<u8>| hex_short(b);
        match self {
            Call::SetLeaf(i, b) => format!("set_leaf({i},{})", h(b)),
            Call::DeleteLeaf(i) => format!("delete_leaf({i})"),
            Call::GetLeaf(i) => format!("get_leaf({i})"),
            Call::SetNextLeaf(b) => format!("set_next_leaf({})", h(b)),
            Call::SetLeavesFrom(i, b) => format!("set_leaves_from({i},{})", h(b)),
            Call::InitTree(b) => format!("init_tree_with_leaves({})", h(b)),
            Call::Atomic(i, l, r) => format!("atomic_operation({i},{},{})", h(l), h(r)),
            Call::SeqAtomic(l, r) => format!("seq_atomic_operation({},{})", h(l), h(r)),
            Call::GetProof(i) => format!("get_proof({i})"),
            Call::SetMetadata(b) => format!("set_metadata({})", h(b)),
            Call::SetTree(d) => format!("set_tree({d})"),
            Call::Hash(b) => format!("hash({})", h(b)),
            Call::Poseidon(b) => format!("poseidon_hash({})", h(b)),
            Call::SeededKeyGen(b) => format!("seeded_key_gen({})", h(b)),
            Call::SeededExtKeyGen(b) => format!("seeded_extended_key_gen({})", h(b)),
            Call::GenProof(b, _) => format!("generate_rln_proof({})", h(b)),
            Call::GenProofWitness(b) => format!("generate_rln_proof_with_witness({})", h(b)),
            Call::Prove(b) => format!("prove({})", h(b)),
            Call::Verify(b) => format!("verify({})", h(b)),
            Call::VerifyRln(b) => format!("verify_rln_proof({})", h(b)),
            Call::VerifyRoots(a, b) => format!("verify_with_roots({},{})", h(a), h(b)),
            Call::Recover(a, b) => format!("recover_id_secret({},{})", h(a), h(b)),
            other => other.name().to_string(),
        }
    }
}

#[derive(Debug, Clone, PartialEq)]
pub enum Ret {
    /// success flag + output bytes
    Bytes(bool, Vec<u8>),
    /// success flag + verdict
    Verdict(bool, bool),
    Count(usize),
}

fn rust_call(r: &mut RLN, c: &Call) -> Ret {
    let by = |res: color_eyre::Result<()>, out: Vec<u8>| Ret::Bytes(res.is_ok(), if res.is_ok() { out } else { vec![] });
    let fl = |res: color_eyre::Result<()>| Ret::Bytes(res.is_ok(), vec![]);
    let vd = |res: color_eyre::Result<bool>| match res {
        Ok(b) => Ret::Verdict(true, b),
        Err(_) => Ret::Verdict(false, false),
    };
    let mut out = vec![];
    match c {
        Call::SetLeaf(i, b) => fl(r.set_leaf(*i, Cursor::new(b.clone()))),
        Call::DeleteLeaf(i) => fl(r.delete_leaf(*i)),
        Call::GetLeaf(i) => {
            let res = r.get_leaf(*i, &mut out);
            by(res, out)
        }
        Call::SetNextLeaf(b) => fl(r.set_next_leaf(Cursor::new(b.clone()))),
        Call::SetLeavesFrom(i, b) => fl(r.set_leaves_from(*i, Cursor::new(b.clone()))),
        Call::InitTree(b) => fl(r.init_tree_with_leaves(Cursor::new(b.clone()))),
        Call::Atomic(i, l, x) => fl(r.atomic_operation(*i, Cursor::new(l.clone()), Cursor::new(x.clone()))),
        Call::SeqAtomic(l, x) => {
            // documented twin: a batch update that starts at the current leaf count
            let start = r.leaves_set();
            fl(r.atomic_operation(start, Cursor::new(l.clone()), Cursor::new(x.clone())))
        }
        Call::GetRoot => {
            let res = r.get_root(&mut out);
            by(res, out)
        }
        Call::GetProof(i) => {
            let res = r.get_proof(*i, &mut out);
            by(res, out)
        }
        Call::LeavesSet => Ret::Count(r.leaves_set()),
        Call::SetMetadata(b) => fl(r.set_metadata(b)),
        Call::GetMetadata => {
            let res = r.get_metadata(&mut out);
            by(res, out)
        }
        Call::Flush => fl(r.flush()),
        Call::SetTree(d) => fl(r.set_tree(*d)),
        Call::Hash(b) => {
            let res = rln::public::hash(Cursor::new(b.clone()), &mut out);
            by(res, out)
        }
        Call::Poseidon(b) => {
            let res = rln::public::poseidon_hash(Cursor::new(b.clone()), &mut out);
            by(res, out)
        }
        Call::KeyGen => {
            let res = r.key_gen(&mut out);
            by(res, out)
        }
        Call::ExtKeyGen => {
            let res = r.extended_key_gen(&mut out);
            by(res, out)
        }
        Call::SeededKeyGen(b) => {
            let res = r.seeded_key_gen(Cursor::new(b.clone()), &mut out);
            by(res, out)
        }
        Call::SeededExtKeyGen(b) => {
            let res = r.seeded_extended_key_gen(Cursor::new(b.clone()), &mut out);
            by(res, out)
        }
        Call::GenProof(b, _) => {
            let res = r.generate_rln_proof(Cursor::new(b.clone()), &mut out);
            by(res, out)
        }
        Call::GenProofWitness(b) => {
            let res = r.generate_rln_proof_with_witness(Cursor::new(b.clone()), &mut out);
            by(res, out)
        }
        Call::Prove(b) => {
            let res = r.prove(Cursor::new(b.clone()), &mut out);
            by(res, out)
        }
        Call::Verify(b) => vd(r.verify(Cursor::new(b.clone()))),
        Call::VerifyRln(b) => vd(r.verify_rln_proof(Cursor::new(b.clone()))),
        Call::VerifyRoots(a, b) => vd(r.verify_with_roots(Cursor::new(a.clone()), Cursor::new(b.clone()))),
        Call::Recover(a, b) => {
            let res = r.recover_id_secret(Cursor::new(a.clone()), Cursor::new(b.clone()), &mut out);
            by(res, out)
        }
    }
}

static CALL_STYLE: std::sync::atomic::AtomicUsize = std::sync::atomic::AtomicUsize::new(0);
static INPLACE_CALLS: std::sync::atomic::AtomicUsize = std::sync::atomic::AtomicUsize::new(0);

/// Calls through the FFI the way a C caller would: input Buffers point into caller memory, output
/// Buffer / bool are uninitialised storage written by the callee.
fn ffi_call(ctx: *mut RLN, c: &Call) -> Ret {
    let mut ob = MaybeUninit::<Buffer>::uninit();
    // the verdict out-parameter starts with a value that alternates from call to call: an export that reports
    // success without writing its verdict then returns whatever the caller's variable held before
    static VERDICT_POISON: std::sync::atomic::AtomicBool = std::sync::atomic::AtomicBool::new(true);
    let mut vb = MaybeUninit::<bool>::new(VERDICT_POISON.fetch_xor(true, std::sync::atomic::Ordering::Relaxed));
    let outb = |ok: bool, ob: &MaybeUninit<Buffer>| Ret::Bytes(ok, if ok { read_out(ob) } else { vec![] });
    let outv = |ok: bool, vb: &MaybeUninit<bool>| Ret::Verdict(ok, if ok { unsafe { vb.assume_init_read() } } else { false });
    // Calling style: every third call with one input and one output buffer is made "in place" - the caller hands the
    // SAME Buffer variable as input and as output (chaining one call's output into the next without a second
    // variable). The input is what the variable held when the call was made.
    let inplace = CALL_STYLE.fetch_add(1, std::sync::atomic::Ordering::Relaxed) % 3 == 2;
    let one = |f: &dyn Fn(*const Buffer, *mut Buffer) -> bool, b: &[u8]| -> Ret {
        if inplace {
            INPLACE_CALLS.fetch_add(1, std::sync::atomic::Ordering::Relaxed);
            let mut io = MaybeUninit::<Buffer>::new(buf(b));
            let p = io.as_mut_ptr();
            let ok = f(p as *const Buffer, p);
            Ret::Bytes(ok, if ok { read_out(&io) } else { vec![] })
        } else {
            let mut ob = MaybeUninit::<Buffer>::uninit();
            let ok = f(&buf(b), ob.as_mut_ptr());
            Ret::Bytes(ok, if ok { read_out(&ob) } else { vec![] })
        }
    };
    match c {
        Call::SetLeaf(i, b) => Ret::Bytes(ffi::set_leaf(ctx, *i, &buf(b)), vec![]),
        Call::DeleteLeaf(i) => Ret::Bytes(ffi::delete_leaf(ctx, *i), vec![]),
        Call::GetLeaf(i) => {
            let ok = ffi::get_leaf(ctx, *i, ob.as_mut_ptr());
            outb(ok, &ob)
        }
        Call::SetNextLeaf(b) => Ret::Bytes(ffi::set_next_leaf(ctx, &buf(b)), vec![]),
        Call::SetLeavesFrom(i, b) => Ret::Bytes(ffi::set_leaves_from(ctx, *i, &buf(b)), vec![]),
        Call::InitTree(b) => Ret::Bytes(ffi::init_tree_with_leaves(ctx, &buf(b)), vec![]),
        Call::Atomic(i, l, x) => Ret::Bytes(ffi::atomic_operation(ctx, *i, &buf(l), &buf(x)), vec![]),
        Call::SeqAtomic(l, x) => Ret::Bytes(ffi::seq_atomic_operation(ctx, &buf(l), &buf(x)), vec![]),
        Call::GetRoot => {
            let ok = ffi::get_root(ctx, ob.as_mut_ptr());
            outb(ok, &ob)
        }
        Call::GetProof(i) => {
            let ok = ffi::get_proof(ctx, *i, ob.as_mut_ptr());
            outb(ok, &ob)
        }
        Call::LeavesSet => Ret::Count(ffi::leaves_set(ctx)),
        Call::SetMetadata(b) => Ret::Bytes(ffi::set_metadata(ctx, &buf(b)), vec![]),
        Call::GetMetadata => {
            let ok = ffi::get_metadata(ctx, ob.as_mut_ptr());
            outb(ok, &ob)
        }
        Call::Flush => Ret::Bytes(ffi::flush(ctx), vec![]),
        Call::SetTree(d) => Ret::Bytes(ffi::set_tree(ctx, *d), vec![]),
        Call::Hash(b) => one(&|i, o| ffi::hash(i, o), b),
        Call::Poseidon(b) => one(&|i, o| ffi::poseidon_hash(i, o), b),
        Call::KeyGen => {
            let ok = ffi::key_gen(ctx, ob.as_mut_ptr());
            outb(ok, &ob)
        }
        Call::ExtKeyGen => {
            let ok = ffi::extended_key_gen(ctx, ob.as_mut_ptr());
            outb(ok, &ob)
        }
        Call::SeededKeyGen(b) => one(&|i, o| ffi::seeded_key_gen(ctx, i, o), b),
        Call::SeededExtKeyGen(b) => one(&|i, o| ffi::seeded_extended_key_gen(ctx, i, o), b),
        Call::GenProof(b, _) => one(&|i, o| ffi::generate_rln_proof(ctx, i, o), b),
        Call::GenProofWitness(b) => one(&|i, o| ffi::generate_rln_proof_with_witness(ctx, i, o), b),
        Call::Prove(b) => one(&|i, o| ffi::prove(ctx, i, o), b),
        Call::Verify(b) => {
            let ok = ffi::verify(ctx, &buf(b), vb.as_mut_ptr());
            outv(ok, &vb)
        }
        Call::VerifyRln(b) => {
            let ok = ffi::verify_rln_proof(ctx, &buf(b), vb.as_mut_ptr());
            outv(ok, &vb)
        }
        Call::VerifyRoots(a, b) => {
            let ok = ffi::verify_with_roots(ctx, &buf(a), &buf(b), vb.as_mut_ptr());
            outv(ok, &vb)
        }
        // in place: the output variable is the one that held the first (or, alternating, the second) message
        Call::Recover(a, b) => {
            if INPLACE_CALLS.load(std::sync::atomic::Ordering::Relaxed) % 2 == 0 {
                one(&|i, o| ffi::recover_id_secret(ctx, i, &buf(b), o), a)
            } else {
                one(&|i, o| ffi::recover_id_secret(ctx, &buf(a), i, o), b)
            }
        }
    }
}

#[derive(Debug, PartialEq, Clone)]
struct Obs {
    root: Vec<u8>,
    count: usize,
    leaves: Vec<Option<Vec<u8>>>,
    meta: Vec<u8>,
}

fn obs_rust(r: &mut RLN, pos: &[usize]) -> Obs {
    let mut root = vec![];
    let _ = r.get_root(&mut root);
    let count = r.leaves_set();
    let leaves = pos
        .iter()
        .map(|p| {
            let mut b = vec![];
            r.get_leaf(*p, &mut b).ok().map(|_| b)
        })
        .collect();
    let mut meta = vec![];
    let _ = r.get_metadata(&mut meta);
    Obs { root, count, leaves, meta }
}

fn obs_ffi(ctx: *mut RLN, pos: &[usize]) -> Obs {
    let g = |c: &Call| match ffi_call(ctx, c) {
        Ret::Bytes(true, b) => Some(b),
        _ => None,
    };
    Obs {
        root: g(&Call::GetRoot).unwrap_or_default(),
        count: ffi::leaves_set(ctx),
        leaves: pos.iter().map(|p| g(&Call::GetLeaf(*p))).collect(),
        meta: g(&Call::GetMetadata).unwrap_or_default(),
    }
}

struct Pair {
    rust: RLN,
    ffi_ctx: *mut RLN,
    #[allow(dead_code)]
    depth: usize,
}

impl Pair {
    fn new(depth: usize) -> Result<Pair, String> {
        let cfg = "{}".to_string();
        let rust = match catch(|| RLN::new(depth, Cursor::new(cfg.clone()))) {
            Ok(Ok(r)) => r,
            _ => return Err("RLN::new failed".into()),
        };
        let mut ctx = MaybeUninit::<*mut RLN>::uninit();
        let ok = ffi::new(depth, &buf(cfg.as_bytes()), ctx.as_mut_ptr());
        if !ok {
            return Err("ffi::new failed where RLN::new succeeded".into());
        }
        Ok(Pair { rust, ffi_ctx: unsafe { ctx.assume_init() }, depth })
    }
}

impl Drop for Pair {
    fn drop(&mut self) {
        // the FFI exports no destructor: reclaim the instance the way `new` created it
        unsafe { drop(Box::from_raw(self.ffi_ctx)) };
    }
}

struct Gen {
    depth: usize,
    secret: Fr,
    limit: u64,
    member_index: usize,
    messages: Vec<(Vec<u8>, Vec<u8>)>, // (message, signal) produced so far (by the Rust side)
    /// serialized witness of the member for the current tree (from RLN::get_serialized_rln_witness)
    witness: Option<Vec<u8>>,
}

fn rbl(rng: &mut (impl rand::RngCore + ?Sized), lens: &[usize]) -> Vec<u8> {
    let l = lens[rng.gen_range(0..lens.len())];
    rand_bytes(rng, l)
}
fn rbr(rng: &mut (impl rand::RngCore + ?Sized), lo: usize, hi: usize) -> Vec<u8> {
    let l = rng.gen_range(lo..hi);
    rand_bytes(rng, l)
}

fn gen_call(g: &mut Gen, rng: &mut impl rand::RngCore, allow_proofs: bool, count_hint: usize) -> Call {
    let cap = 1usize << g.depth;
    let pos = |rng: &mut dyn rand::RngCore| -> usize {
        match rng.gen_range(0..10) {
            0 => cap,
            1 => cap + 1,
            2 => usize::MAX,
            3 => cap - 1,
            4 => 0,
            5 => count_hint,
            _ => rng.gen_range(0..cap.min(300)),
        }
    };
    let leaf = |rng: &mut dyn rand::RngCore| -> Vec<u8> {
        match rng.gen_range(0..12) {
            0 => vec![0u8; 32],
            1 => vec![0xffu8; 32],                       // non-canonical: reduced by both sides alike
            2 => rand_bytes(rng, 40),                    // over-long: extra bytes ignored by both
            3 if rng.gen_range(0..4) == 0 => rand_bytes(rng, 5), // short: the Rust API panics -> outside the quantifier
            _ => enc_fr(&rand_fr(rng)),
        }
    };
    let leaves = |rng: &mut dyn rand::RngCore, n: usize| -> Vec<u8> { enc_vec_fr(&(0..n).map(|_| rand_fr(rng)).collect::<Vec<_>>()) };
    let r = rng.gen_range(0..100);
    match r {
        0..=11 => Call::SetLeaf(pos(rng), leaf(rng)),
        12..=16 => Call::DeleteLeaf(pos(rng)),
        17..=21 => Call::GetLeaf(pos(rng)),
        22..=27 => Call::SetNextLeaf(leaf(rng)),
        28..=33 => {
            let n = rng.gen_range(0..5);
            Call::SetLeavesFrom(pos(rng).min(cap + 1), leaves(rng, n))
        }
        34..=35 => {
            let n = rng.gen_range(0..5usize).min(cap);
            Call::InitTree(leaves(rng, n))
        }
        36..=42 => {
            // shapes that are well defined in every backend: removals only, or removals at the start of the range
            let n = rng.gen_range(0..4usize);
            let s = rng.gen_range(0..cap.min(200));
            let rm: Vec<u8> = if n == 0 { (0..rng.gen_range(1..4)).map(|_| rng.gen_range(0..cap.min(200)) as u8).collect() } else if rng.gen_bool(0.5) { vec![s as u8] } else { vec![] };
            Call::Atomic(s, leaves(rng, n), enc_vec_u8(&rm))
        }
        43..=48 => {
            let n = rng.gen_range(0..4usize);
            let rm: Vec<u8> = if n == 0 { vec![rng.gen_range(0..cap.min(200)) as u8] } else if rng.gen_bool(0.4) && count_hint < 256 { vec![count_hint as u8] } else { vec![] };
            Call::SeqAtomic(leaves(rng, n), enc_vec_u8(&rm))
        }
        49..=52 => Call::GetRoot,
        53..=57 => Call::GetProof(pos(rng)),
        58..=60 => Call::LeavesSet,
        61..=63 => Call::SetMetadata(rbl(rng, &[0, 1, 16, 300])),
        64..=65 => Call::GetMetadata,
        66 => Call::Flush,
        67 => {
            if rng.gen_bool(0.5) {
                Call::SetTree(g.depth)
            } else {
                Call::SetMetadata(b"meta-3".to_vec())
            }
        }
        68..=70 => Call::Hash(rbl(rng, &[0, 1, 136, 137, 1000])),
        71..=73 => {
            let n = rng.gen_range(1..=8);
            Call::Poseidon(leaves(rng, n))
        }
        74 => Call::KeyGen,
        75 => Call::ExtKeyGen,
        76..=77 => Call::SeededKeyGen(rbr(rng, 0, 40)),
        78..=79 => Call::SeededExtKeyGen(rbr(rng, 0, 40)),
        80..=99 => {
            if !allow_proofs || g.depth != 20 {
                return Call::GetRoot;
            }
            match rng.gen_range(0..10) {
                0 | 1 => {
                    let sig = rbr(rng, 0, 50);
                    let id = rng.gen_range(0..g.limit);
                    let req = enc_prove_request(&g.secret, g.member_index as u64, &Fr::from(g.limit), &Fr::from(id), &Fr::from(77u64), &sig);
                    Call::GenProof(req, sig)
                }
                2 => {
                    // invalid request: id == limit -> both must fail
                    let req = enc_prove_request(&g.secret, g.member_index as u64, &Fr::from(g.limit), &Fr::from(g.limit), &Fr::from(77u64), b"x");
                    Call::GenProof(req, b"x".to_vec())
                }
                3 => Call::GenProof(rbr(rng, 0, 200), vec![]),
                4 | 5 | 6 if !g.messages.is_empty() => {
                    let (m, s) = g.messages[rng.gen_range(0..g.messages.len())].clone();
                    let mut req = enc_verify_request(&m, &s);
                    if rng.gen_bool(0.3) {
                        let i = rng.gen_range(0..req.len());
                        req[i] ^= 1 << rng.gen_range(0..8);
                    }
                    match rng.gen_range(0..3) {
                        0 => Call::VerifyRln(req),
                        1 => {
                            // root sets: empty (the root check is skipped by the Rust API), the carried root, a window
                            // containing it, only other roots, a buffer that is not a whole number of roots
                            let carried = m[128..160].to_vec();
                            let roots = match rng.gen_range(0..7) {
                                0 | 1 => vec![],
                                2 => carried,
                                3 => [rand_bytes(rng, 32), carried, rand_bytes(rng, 32)].concat(),
                                4 => rand_bytes(rng, 64),
                                5 => [carried, rand_bytes(rng, 7)].concat(),
                                _ => rand_bytes(rng, 31),
                            };
                            Call::VerifyRoots(req, roots)
                        }
                        _ => Call::Verify(if rng.gen_bool(0.2) { m[..rng.gen_range(0..m.len())].to_vec() } else { m }),
                    }
                }
                7 if g.messages.len() >= 2 => {
                    let mut a = g.messages[rng.gen_range(0..g.messages.len())].0.clone();
                    let mut b = g.messages[rng.gen_range(0..g.messages.len())].0.clone();
                    // also: different external nullifiers, alone and together with an input the Rust API refuses
                    // (truncated, non-canonical field encodings)
                    match rng.gen_range(0..7) {
                        0 | 1 => {}
                        2 => a[160 + rng.gen_range(0..31)] ^= 1,
                        3 => {
                            a[160 + rng.gen_range(0..31)] ^= 1;
                            b.truncate(rng.gen_range(192..288));
                        }
                        4 => b[160..192].copy_from_slice(&[0xffu8; 32]),
                        5 => a.truncate(rng.gen_range(0..288)),
                        _ => {
                            a[160 + rng.gen_range(0..31)] ^= 1;
                            b[128..160].copy_from_slice(&[0xffu8; 32]);
                        }
                    }
                    if rng.gen_bool(0.5) {
                        std::mem::swap(&mut a, &mut b);
                    }
                    Call::Recover(a, b)
                }
                8 if g.witness.is_some() => {
                    let mut w = g.witness.clone().unwrap();
                    if rng.gen_bool(0.25) {
                        let i = rng.gen_range(0..w.len());
                        w.truncate(i); // truncated witness: both must fail
                    }
                    Call::GenProofWitness(w)
                }
                9 if g.witness.is_some() => Call::Prove(g.witness.clone().unwrap()),
                _ => Call::VerifyRln(rbr(rng, 0, 400)),
            }
        }
        _ => Call::GetRoot,
    }
}

pub fn run(rep: &mut Rep, args: &[String]) {
    rep.rule = "lockstep sequences of FFI calls (all exported functions: tree mutators and queries with in/out-of-range indices and odd buffers, batch and sequential batch updates, metadata, flush, set_tree, hashing, key generation, proof generation with valid and invalid requests, the three verification calls on valid/tampered/truncated inputs, secret recovery, new / new_with_params) against a second instance driven through the Rust API; per call: success flag == is_ok(), output bytes equal (relations for randomised outputs: the 160 value bytes and cross-verification), verdicts equal, both full observations equal, and unchanged after a failed call. distinct_nontrivial = distinct (function, outcome class, argument class) keys".into();
    rep.assumptions = vec![
        "calls on which the Rust API panics are outside the quantifier (counted, both instances rebuilt)".into(),
        "the FFI leaks every output buffer by design (no free function): leak checking is off".into(),
    ];
    let thorough = rep.thorough();
    let no_proofs = args.iter().any(|a| a == "--no-proofs");
    let scale: usize = args.iter().position(|a| a == "--scale").and_then(|i| args.get(i + 1)).and_then(|s| s.parse().ok()).unwrap_or(100);
    let mut rng = rng_for(rep.seed, "c11");
    let calllog = std::env::var("VH_RUN_DIR").ok().map(|d| format!("{d}/c11.calls.log"));
    let mut logf = calllog.as_ref().and_then(|p| std::fs::OpenOptions::new().create(true).append(true).open(p).ok());
    let seqs: Vec<(usize, usize)> = if thorough {
        vec![(3, 1500), (8, 1500), (20, 2500), (5, 1500), (20, 2500), (20, 2500), (4, 1500), (20, 2500)]
    } else {
        vec![(3, 350), (8, 350), (20, 500)]
    };
    let mut total_calls = 0u64;
    for (si, (depth, ncalls)) in seqs.iter().enumerate() {
        let ncalls = ncalls * scale / 100;
        let mut pair = match Pair::new(*depth) {
            Ok(p) => p,
            Err(e) => {
                rep.violation("new:ffi-and-rust-disagree", json!({"error": e}));
                continue;
            }
        };
        let secret = rand_fr(&mut rng);
        let mut g = Gen { depth: *depth, secret, limit: 10, member_index: 3, messages: vec![], witness: None };
        // register the member on both sides (through the respective interface)
        let rc = enc_fr(&rate_commitment_ref(&secret, &Fr::from(10u64)));
        let _ = pair.rust.set_leaf(3, Cursor::new(rc.clone()));
        let _ = ffi::set_leaf(pair.ffi_ctx, 3, &buf(&rc));
        let mut proofs_left = if no_proofs { 0 } else if thorough { 40 } else { 6 };
        let watch: Vec<usize> = {
            let cap = 1usize << depth;
            let mut v: Vec<usize> = (0..cap.min(24)).collect();
            v.extend([cap / 2, cap - 1, cap.min(200) - 1, cap.min(255)]);
            v.retain(|x| *x < cap);
            v
        };
        let mut hist: Vec<String> = vec![];
        // scripted scenarios around state that survives or must not survive certain calls (reset of an empty / a
        // filled tree, metadata set/cleared/overwritten, flush, batch initialisation with nothing, sequential batch on
        // an empty tree); they are replayed first, the generated calls follow
        let l1 = |rng: &mut rand_chacha::ChaCha8Rng, n: usize| enc_vec_fr(&(0..n).map(|_| rand_fr(rng)).collect::<Vec<_>>());
        let mut script: Vec<Call> = vec![
            Call::SetTree(*depth),
            Call::GetMetadata,
            Call::SetMetadata(b"meta-1".to_vec()),
            Call::SetTree(*depth),
            Call::GetMetadata,
            Call::LeavesSet,
            Call::SetMetadata(b"meta-2".to_vec()),
            Call::SetMetadata(vec![]),
            Call::GetMetadata,
            Call::SetMetadata(b"meta-3".to_vec()),
            Call::SetMetadata(b"meta-3".to_vec()),
            Call::Flush,
            Call::GetMetadata,
            Call::InitTree(l1(&mut rng, 0)),
            Call::GetMetadata,
            Call::SeqAtomic(l1(&mut rng, 2), enc_vec_u8(&[])),
            Call::SeqAtomic(l1(&mut rng, 1), enc_vec_u8(&[2])),
            Call::SetNextLeaf(enc_fr(&rand_fr(&mut rng))),
            Call::SetMetadata(b"meta-4".to_vec()),
            Call::InitTree(l1(&mut rng, 3)),
            Call::GetMetadata,
            Call::DeleteLeaf(1),
            Call::DeleteLeaf(1),
            Call::SetLeaf(1, enc_fr(&Fr::from(0u64))),
            Call::Atomic(0, l1(&mut rng, 0), enc_vec_u8(&[0, 2])),
            Call::GetRoot,
            // sequential batches after deletions at the end of the written range (they start at the leaf COUNT, which
            // deletions do not lower), after a deletion in the middle, after a write above the count
            Call::InitTree(l1(&mut rng, 4)),
            Call::DeleteLeaf(3),
            Call::SeqAtomic(l1(&mut rng, 2), enc_vec_u8(&[])),
            Call::LeavesSet,
            Call::DeleteLeaf(5),
            Call::DeleteLeaf(4),
            Call::SeqAtomic(l1(&mut rng, 1), enc_vec_u8(&[])),
            Call::LeavesSet,
            Call::DeleteLeaf(1),
            Call::SeqAtomic(l1(&mut rng, 1), enc_vec_u8(&[])),
            Call::SetLeaf(9, enc_fr(&Fr::from(0u64))),
            Call::SeqAtomic(l1(&mut rng, 2), enc_vec_u8(&[])),
            Call::GetRoot,
            Call::SetTree(*depth),
            Call::SetTree(*depth),
            Call::LeavesSet,
            Call::SetLeaf(3, rc.clone()),
        ];
        script.reverse();
        let mut verify_script_done = false;
        for k in 0..ncalls + script.len() + 21 {
            let count_hint = pair.rust.leaves_set();
            if *depth == 20 && proofs_left > 0 {
                let req = enc_prove_request(&secret, 3, &Fr::from(10u64), &Fr::from(1u64), &Fr::from(77u64), b"w");
                g.witness = catch(|| pair.rust.get_serialized_rln_witness(Cursor::new(req)).ok()).ok().flatten();
            }
            // as soon as a message exists: every verification export on it before and after the tree has moved on,
            // with every kind of root set (scripted once per sequence, the generated calls repeat it at random)
            if !verify_script_done && !g.messages.is_empty() && script.is_empty() {
                verify_script_done = true;
                let (m, sg) = g.messages[0].clone();
                let req = enc_verify_request(&m, &sg);
                let carried = m[128..160].to_vec();
                let mut vs: Vec<Call> = vec![];
                for round in 0..2 {
                    vs.push(Call::VerifyRln(req.clone()));
                    vs.push(Call::VerifyRoots(req.clone(), vec![]));
                    vs.push(Call::VerifyRoots(req.clone(), carried.clone()));
                    vs.push(Call::VerifyRoots(req.clone(), [rand_bytes(&mut rng, 32), carried.clone()].concat()));
                    vs.push(Call::VerifyRoots(req.clone(), rand_bytes(&mut rng, 32)));
                    vs.push(Call::VerifyRoots(req.clone(), rand_bytes(&mut rng, 31)));
                    vs.push(Call::Verify(m.clone()));
                    if round == 0 {
                        // secret recovery on pairs the Rust API answers with "nothing recovered" or refuses
                        let mut other_ext = m.clone();
                        other_ext[161] ^= 4;
                        let mut bad_root = m.clone();
                        bad_root[128..160].copy_from_slice(&[0xffu8; 32]);
                        vs.push(Call::Recover(m.clone(), m.clone()));
                        vs.push(Call::Recover(other_ext.clone(), m.clone()));
                        vs.push(Call::Recover(other_ext.clone(), m[..250].to_vec()));
                        vs.push(Call::Recover(m[..200].to_vec(), other_ext.clone()));
                        vs.push(Call::Recover(other_ext.clone(), bad_root));
                        vs.push(Call::Recover(m[..100].to_vec(), other_ext));
                    }
                    if round == 0 {
                        vs.push(Call::SetNextLeaf(enc_fr(&rand_fr(&mut rng))));
                    }
                }
                vs.reverse();
                script = vs;
            }
            let call = match script.pop() {
                Some(c) => c,
                None => gen_call(&mut g, &mut rng, proofs_left > 0, count_hint),
            };
            if matches!(call, Call::GenProof(..) | Call::GenProofWitness(..) | Call::Prove(..)) {
                proofs_left -= 1;
            }
            if let Some(f) = logf.as_mut() {
                let _ = writeln!(f, "seq{si} call{k} {}", call.show());
            }
            hist.push(call.show());
            if hist.len() > 12 {
                hist.remove(0);
            }
            let before = obs_rust(&mut pair.rust, &watch);
            // Rust side first
            let rr = catch(|| rust_call(&mut pair.rust, &call));
            let rr = match rr {
                Ok(r) => r,
                Err(p) => {
                    rep.count(&format!("rust_api_panicked(outside quantifier)|{}", call.name()));
                    rep.stratum(format!("{}|rust-panics", call.name()));
                    let _ = p;
                    // both instances are rebuilt
                    match Pair::new(*depth) {
                        Ok(p2) => {
                            pair = p2;
                            let _ = pair.rust.set_leaf(3, Cursor::new(rc.clone()));
                            let _ = ffi::set_leaf(pair.ffi_ctx, 3, &buf(&rc));
                            g.messages.clear();
                        }
                        Err(_) => break,
                    }
                    continue;
                }
            };
            let fr = ffi_call(pair.ffi_ctx, &call);
            total_calls += 1;
            rep.ev();
            let ok_class = match &rr {
                Ret::Bytes(ok, _) | Ret::Verdict(ok, _) => {
                    if *ok {
                        "ok"
                    } else {
                        "err"
                    }
                }
                Ret::Count(_) => "count",
            };
            rep.stratum(format!("{}|{}|d{}", call.name(), ok_class, depth));
            let detail = |extra: serde_json::Value| json!({"call": call.show(), "depth": depth, "rust": format!("{:?}", rr).chars().take(300).collect::<String>(), "ffi": format!("{:?}", fr).chars().take(300).collect::<String>(), "recent_calls": hist, "more": extra});
            // --- flags / outputs
            match (&rr, &fr) {
                (Ret::Bytes(a, ab), Ret::Bytes(b, bb)) => {
                    if a != b {
                        rep.violation(format!("{}:success-flag-differs", call.name()), detail(json!({})));
                    } else if *a && !call.randomized() && ab != bb {
                        rep.violation(format!("{}:output-bytes-differ", call.name()), detail(json!({})));
                    } else if *a && call.randomized() {
                        // relations instead of byte equality
                        match &call {
                            Call::KeyGen | Call::ExtKeyGen => {
                                let n = if matches!(call, Call::KeyGen) { 2 } else { 4 };
                                for (side, o) in [("rust", ab), ("ffi", bb)] {
                                    match dec_frs(o, n) {
                                        Some(v) => {
                                            let ok = if n == 2 { v[1] == crate::refhash::poseidon_ref(&[v[0]]) } else { v[2] == crate::refhash::poseidon_ref(&[v[0], v[1]]) && v[3] == crate::refhash::poseidon_ref(&[v[2]]) };
                                            if !ok {
                                                rep.violation(format!("{}:{side}:commitment-relation", call.name()), detail(json!({})));
                                            }
                                        }
                                        None => rep.violation(format!("{}:{side}:output-layout", call.name()), detail(json!({}))),
                                    }
                                }
                            }
                            Call::GenProof(_, sig) => {
                                if ab.len() != 288 || bb.len() != 288 || ab[128..] != bb[128..] {
                                    rep.violation("generate_rln_proof:value-bytes-differ", detail(json!({})));
                                } else {
                                    // each side's proof is a valid zk-proof for the other instance, and the tree-bound verdict
                                    // (true only while the member's leaf is still in place) is the same on both instances
                                    let raw1 = ffi_call(pair.ffi_ctx, &Call::Verify(ab.clone()));
                                    let raw2 = catch(|| rust_call(&mut pair.rust, &Call::Verify(bb.clone())));
                                    let t1 = ffi_call(pair.ffi_ctx, &Call::VerifyRln(enc_verify_request(ab, sig)));
                                    let t2 = catch(|| rust_call(&mut pair.rust, &Call::VerifyRln(enc_verify_request(ab, sig))));
                                    if raw1 != Ret::Verdict(true, true) || !matches!(raw2, Ok(Ret::Verdict(true, true))) {
                                        rep.violation("generate_rln_proof:cross-verification-fails", detail(json!({"rust_proof_on_ffi": format!("{:?}", raw1), "ffi_proof_on_rust": format!("{:?}", raw2.map_err(|p| p.msg))})));
                                    } else if t2.as_ref().ok() != Some(&t1) {
                                        rep.violation("generate_rln_proof:tree-bound-verdict-differs", detail(json!({"ffi": format!("{:?}", t1), "rust": format!("{:?}", t2.map_err(|p| p.msg))})));
                                    } else {
                                        rep.count("proof_pairs_cross_verified");
                                        if t1 == Ret::Verdict(true, true) {
                                            rep.count("proof_pairs_accepted_against_the_tree");
                                        }
                                    }
                                    g.messages.push((ab.clone(), sig.clone()));
                                    g.messages.push((bb.clone(), sig.clone()));
                                }
                            }
                            Call::GenProofWitness(_) => {
                                if ab.len() != 288 || bb.len() != 288 || ab[128..] != bb[128..] {
                                    rep.violation("generate_rln_proof_with_witness:value-bytes-differ", detail(json!({})));
                                }
                            }
                            Call::Prove(_) => {
                                if ab.len() != 128 || bb.len() != 128 {
                                    rep.violation("prove:output-length", detail(json!({})));
                                }
                            }
                            _ => {}
                        }
                    }
                }
                (Ret::Verdict(a, av), Ret::Verdict(b, bv)) => {
                    if a != b {
                        rep.violation(format!("{}:success-flag-differs", call.name()), detail(json!({})));
                    } else if *a && av != bv {
                        rep.violation(format!("{}:verdict-differs", call.name()), detail(json!({})));
                    }
                }
                (Ret::Count(a), Ret::Count(b)) => {
                    if a != b {
                        rep.violation("leaves_set:differs", detail(json!({})));
                    }
                }
                _ => rep.violation(format!("{}:return-shape-differs", call.name()), detail(json!({}))),
            }
            // --- state evolution
            let after_r = obs_rust(&mut pair.rust, &watch);
            let after_f = obs_ffi(pair.ffi_ctx, &watch);
            if after_r != after_f {
                let what = if after_r.root != after_f.root { "root" } else if after_r.count != after_f.count { "leaf-count" } else if after_r.leaves != after_f.leaves { "leaf" } else { "metadata" };
                rep.violation(format!("{}:state-diverges:{what}", call.name()), detail(json!({"rust_count": after_r.count, "ffi_count": after_f.count})));
                break;
            }
            let failed = matches!(&rr, Ret::Bytes(false, _) | Ret::Verdict(false, _));
            if failed && after_r != before {
                // init_tree_with_leaves is documented as reset followed by a write: a failing write leaves a reset tree
                if !matches!(call, Call::InitTree(_)) {
                    rep.violation(format!("{}:failed-call-changed-the-context", call.name()), detail(json!({"count_before": before.count, "count_after": after_r.count})));
                }
            }
        }
        rep.note(&format!("seq{si}"), json!({"depth": depth, "calls": ncalls, "messages": g.messages.len()}));
    }
    // new / new_with_params with good and bad arguments
    {
        let zkey = std::fs::read(format!("{}/rln/resources/tree_height_20/rln_final.zkey", crate::noderef::repo_dir())).unwrap_or_default();
        let graph = std::fs::read(format!("{}/rln/resources/tree_height_20/graph.bin", crate::noderef::repo_dir())).unwrap_or_default();
        let cases: Vec<(&str, Vec<u8>, Vec<u8>, Vec<u8>)> = vec![
            ("good", zkey.clone(), graph.clone(), b"".to_vec()),
            ("empty-zkey", vec![], graph.clone(), b"".to_vec()),
            ("truncated-zkey", zkey[..zkey.len().min(1000)].to_vec(), graph.clone(), b"".to_vec()),
            ("bad-config", zkey.clone(), graph.clone(), b"{not json".to_vec()),
        ];
        for (name, z, gr, cfg) in cases {
            let rr = catch(|| RLN::new_with_params(20, z.clone(), gr.clone(), Cursor::new(cfg.clone())).is_ok());
            let rr = match rr {
                Ok(b) => b,
                Err(_) => {
                    rep.count("rust_api_panicked(outside quantifier)|new_with_params");
                    continue;
                }
            };
            let mut ctx = MaybeUninit::<*mut RLN>::uninit();
            let fr = ffi::new_with_params(20, &buf(&z), &buf(&gr), &buf(&cfg), ctx.as_mut_ptr());
            rep.ev();
            rep.stratum(format!("new_with_params|{name}|{}", if rr { "ok" } else { "err" }));
            if rr != fr {
                rep.violation("new_with_params:success-flag-differs", json!({"case": name, "rust": rr, "ffi": fr}));
            }
            if fr {
                unsafe { drop(Box::from_raw(ctx.assume_init())) };
            }
        }
        for (name, cfg) in [("bad-json", b"{".to_vec()), ("not-utf8", vec![0xff, 0xfe]), ("empty-object", b"{}".to_vec())] {
            let rr = catch(|| RLN::new(3, Cursor::new(cfg.clone())).is_ok()).unwrap_or(false);
            let mut ctx = MaybeUninit::<*mut RLN>::uninit();
            let fr = ffi::new(3, &buf(&cfg), ctx.as_mut_ptr());
            rep.ev();
            rep.stratum(format!("new|{name}|{}", if rr { "ok" } else { "err" }));
            if rr != fr {
                rep.violation("new:success-flag-differs", json!({"case": name, "rust": rr, "ffi": fr}));
            }
            if fr {
                unsafe { drop(Box::from_raw(ctx.assume_init())) };
            }
        }
    }
    rep.note("lockstep_calls", json!(total_calls));
    rep.countn("ffi_calls_made_in_place(same Buffer variable as input and output)", INPLACE_CALLS.load(std::sync::atomic::Ordering::Relaxed) as u64);
    rep.sample(json!({"example_call": "seq_atomic_operation(leaves, removals) on the FFI instance vs atomic_operation(leaves_set(), leaves, removals) on the Rust instance; flags, then root / leaf count / 28 leaves / metadata of both instances compared"}));
}
