//! C20 -- any well-formed witness graph evaluates as specified and survives storage.
//! Random-program differential monitor: generated DAGs (backward references only, supported
//! operators) are evaluated by zerokit through the user path (serialize -> calc_witness) and
//! through graph::evaluate on the decoded graph, and by the big-integer reference interpreter.

use crate::circomref::{Ctx, Op, ALL_OPS};
use crate::common::*;
use crate::props::c19::to_rln;
use ark_bn254::Fr;
use num_bigint::BigUint;
use rand::seq::SliceRandom;
use rand::Rng;
use rln::circuit::iden3calc::graph::{self, Node, TresOperation, UnoOperation};
use rln::circuit::iden3calc::storage::{deserialize_witnesscalc_graph, serialize_witnesscalc_graph};
use rln::circuit::iden3calc::{calc_witness, InputSignalsInfo};
use ruint::aliases::U256;
use serde_json::json;
use std::collections::HashMap;

#[derive(Clone, Debug)]
pub enum RNode {
    Input(usize),
    Const(BigUint),
    Neg(usize),
    Op(Op, usize, usize),
    Tern(usize, usize, usize),
}

#[derive(Clone)]
pub struct Prog {
    pub nodes: Vec<RNode>,
    pub outputs: Vec<usize>,
    /// name -> (offset, len), non-overlapping, offsets >= 1, lengths >= 0
    pub layout: Vec<(String, usize, usize)>,
    pub inputs_size: usize,
    pub shape: &'static str,
}

fn supported_ops() -> Vec<Op> {
    ALL_OPS.iter().cloned().filter(|o| *o != Op::Pow).collect()
}

pub fn gen_prog(rng: &mut impl rand::RngCore, max_nodes: usize, shape_sel: usize) -> Prog {
    let ops = supported_ops();
    let sg = small_grid();
    // declared inputs
    let n_named = rng.gen_range(0..5usize);
    let mut layout = vec![];
    let mut off = 1usize;
    let mut lens = vec![];
    for k in 0..n_named {
        let len = match rng.gen_range(0..5) {
            // a declared vector without elements (its entry of the input map still has to survive storage)
            4 if k > 0 => 0,
            0 => 1,
            1 => 2,
            2 => rng.gen_range(1..6),
            _ => rng.gen_range(1..21),
        };
        lens.push(len);
        let name = match k % 3 {
            0 => format!("in{k}"),
            1 => format!("signal.with.dots[{k}]"),
            _ => "n".repeat(1 + rng.gen_range(0..200)) + &k.to_string(),
        };
        layout.push((name, 0usize, len));
    }
    // offsets in a shuffled order of the named vectors (arbitrary non-overlapping layouts)
    let mut order: Vec<usize> = (0..n_named).collect();
    order.shuffle(rng);
    for &k in &order {
        layout[k].1 = off;
        off += lens[k];
    }
    let inputs_size = off;
    let shape = ["inputs-first", "consts-first", "scattered"][shape_sel % 3];
    let n_ops = rng.gen_range(0..max_nodes.max(1));
    let n_consts = rng.gen_range(0..(3 + max_nodes / 10));
    let mut nodes: Vec<RNode> = vec![];
    let konst = |rng: &mut dyn rand::RngCore| -> RNode {
        if rng.gen_range(0..3) == 0 {
            RNode::Const(rand_big_below(rng, &p()))
        } else {
            RNode::Const(sg[rng.gen_range(0..sg.len())].1.clone())
        }
    };
    let input_nodes: Vec<RNode> = (0..inputs_size).map(RNode::Input).collect();
    match shape {
        "inputs-first" => {
            nodes.extend(input_nodes);
            for _ in 0..n_consts {
                let k = konst(rng);
                nodes.push(k);
            }
        }
        "consts-first" => {
            for _ in 0..n_consts {
                let k = konst(rng);
                nodes.push(k);
            }
            nodes.extend(input_nodes);
        }
        _ => {
            // inputs interleaved with constants (and later with operations)
            let mut pending = input_nodes;
            pending.reverse();
            let mut c = n_consts;
            while !pending.is_empty() || c > 0 {
                if !pending.is_empty() && (c == 0 || rng.gen_bool(0.5)) {
                    nodes.push(pending.pop().unwrap());
                } else {
                    let k = konst(rng);
                    nodes.push(k);
                    c -= 1;
                }
            }
        }
    }
    if nodes.is_empty() {
        nodes.push(RNode::Input(0));
    }
    for _ in 0..n_ops {
        let n = nodes.len();
        let pickn = |rng: &mut dyn rand::RngCore| -> usize {
            if rng.gen_range(0..4) == 0 {
                n - 1 - rng.gen_range(0..n.min(4))
            } else {
                rng.gen_range(0..n)
            }
        };
        let node = match rng.gen_range(0..12) {
            0 => RNode::Neg(pickn(rng)),
            1 => RNode::Tern(pickn(rng), pickn(rng), pickn(rng)),
            2 if shape == "scattered" && rng.gen_bool(0.3) => RNode::Input(rng.gen_range(0..inputs_size)),
            _ => RNode::Op(ops[rng.gen_range(0..ops.len())], pickn(rng), pickn(rng)),
        };
        nodes.push(node);
    }
    let n_out = rng.gen_range(0..(2 + nodes.len().min(40)));
    let outputs: Vec<usize> = (0..n_out).map(|_| rng.gen_range(0..nodes.len())).collect();
    Prog { nodes, outputs, layout, inputs_size, shape }
}

pub fn to_zk_nodes(p: &Prog) -> Vec<Node> {
    p.nodes
        .iter()
        .map(|n| match n {
            RNode::Input(i) => Node::Input(*i),
            RNode::Const(c) => Node::MontConstant(big_to_fr(c)),
            RNode::Neg(a) => Node::UnoOp(UnoOperation::Neg, *a),
            RNode::Op(op, a, b) => Node::Op(to_rln(*op), *a, *b),
            RNode::Tern(a, b, c) => Node::TresOp(TresOperation::TernCond, *a, *b, *c),
        })
        .collect()
}

pub fn ref_eval(ctx: &Ctx, p: &Prog, inputs: &[BigUint]) -> Vec<BigUint> {
    let mut vals: Vec<BigUint> = Vec::with_capacity(p.nodes.len());
    for n in &p.nodes {
        let v = match n {
            RNode::Input(i) => inputs[*i].clone(),
            RNode::Const(c) => c.clone(),
            RNode::Neg(a) => ctx.neg(&vals[*a]),
            RNode::Op(op, a, b) => ctx.eval(*op, &vals[*a], &vals[*b]),
            RNode::Tern(a, b, c) => ctx.tern(&vals[*a], &vals[*b], &vals[*c]),
        };
        vals.push(v);
    }
    vals
}

fn describe(p: &Prog) -> serde_json::Value {
    let nodes: Vec<String> = p.nodes.iter().take(60).map(|n| format!("{:?}", n)).collect();
    json!({"shape": p.shape, "n_nodes": p.nodes.len(), "nodes(first 60)": nodes, "outputs": p.outputs.iter().take(40).collect::<Vec<_>>(), "layout": p.layout, "inputs_size": p.inputs_size})
}

fn check_prog(rep: &mut Rep, ctx: &Ctx, rng: &mut impl rand::RngCore, p: &Prog) {
    let sg = small_grid();
    let zk_nodes = to_zk_nodes(p);
    let size_class = match p.nodes.len() {
        0..=3 => "tiny",
        4..=30 => "small",
        31..=300 => "medium",
        _ => "large",
    };
    let mut opset: Vec<String> = p.nodes.iter().filter_map(|n| if let RNode::Op(o, _, _) = n { Some(format!("{:?}", o)) } else { None }).collect();
    opset.sort();
    opset.dedup();
    rep.stratum(format!("{}|{}|named={}|ops={}", p.shape, size_class, p.layout.len(), opset.len().min(8)));
    for o in opset {
        rep.stratum(format!("uses|{}|{}", p.shape, o));
    }
    let sig_prefix = if p.shape == "scattered" { "scattered" } else { "canonical" };
    // ---- storage round trip
    let input_map: InputSignalsInfo = p.layout.iter().map(|(n, o, l)| (n.clone(), (*o, *l))).collect::<HashMap<_, _>>();
    rep.ev();
    let mut bytes = vec![];
    match catch(|| serialize_witnesscalc_graph(&mut bytes, &zk_nodes, &p.outputs, &input_map)) {
        Ok(Ok(())) => {}
        Ok(Err(e)) => {
            rep.violation(format!("{sig_prefix}:serialize:err"), json!({"err": e.to_string(), "prog": describe(p)}));
            return;
        }
        Err(pn) => {
            rep.violation(format!("{sig_prefix}:serialize:panic:{}", pn.file()), json!({"panic": pn.msg, "at": pn.loc, "prog": describe(p)}));
            return;
        }
    }
    match catch(|| deserialize_witnesscalc_graph(std::io::Cursor::new(&bytes))) {
        Ok(Ok((n2, s2, m2))) => {
            if n2 != zk_nodes || s2 != p.outputs || m2 != input_map {
                let what = if n2 != zk_nodes { "nodes" } else if s2 != p.outputs { "signals" } else { "input-map" };
                rep.violation(format!("{sig_prefix}:storage-roundtrip:differs:{what}"), json!({"prog": describe(p), "bytes": bytes.len()}));
            }
        }
        Ok(Err(e)) => rep.violation(format!("{sig_prefix}:deserialize:err"), json!({"err": e.to_string(), "prog": describe(p), "bytes": bytes.len()})),
        Err(pn) => rep.violation(format!("{sig_prefix}:deserialize:panic:{}", pn.file()), json!({"panic": pn.msg, "at": pn.loc, "prog": describe(p)})),
    }
    // ---- evaluations on a few assignments
    for k in 0..3 {
        let mut inputs: Vec<BigUint> = vec![BigUint::from(1u8)];
        for _ in 1..p.inputs_size {
            inputs.push(if k == 0 || rng.gen_bool(0.4) { sg[rng.gen_range(0..sg.len())].1.clone() } else { rand_big_below(rng, &ctx.p) });
        }
        let want_all = ref_eval(ctx, p, &inputs);
        let want: Vec<BigUint> = p.outputs.iter().map(|o| want_all[*o].clone()).collect();
        // user path: named inputs (shuffled) + serialized graph
        let mut named: Vec<(String, Vec<Fr>)> = p.layout.iter().map(|(n, o, l)| (n.clone(), inputs[*o..*o + *l].iter().map(big_to_fr).collect())).collect();
        named.shuffle(rng);
        rep.ev();
        let got = catch(|| calc_witness(named.clone(), &bytes));
        let mut bad = false;
        match got {
            Ok(v) => {
                let g: Vec<BigUint> = v.iter().map(fr_to_big).collect();
                if g != want {
                    bad = true;
                }
            }
            Err(pn) => {
                rep.violation(format!("{sig_prefix}:calc_witness:panic:{}", pn.file()), json!({"panic": pn.msg, "at": pn.loc, "prog": describe(p)}));
                continue;
            }
        }
        // direct path on the in-memory graph
        rep.ev();
        let uin: Vec<U256> = inputs.iter().map(crate::props::c19::big_to_u256).collect();
        match catch(|| graph::evaluate(&zk_nodes, &uin, &p.outputs)) {
            Ok(v) => {
                let g: Vec<BigUint> = v.iter().map(fr_to_big).collect();
                if g != want {
                    bad = true;
                }
            }
            Err(pn) => {
                rep.violation(format!("{sig_prefix}:evaluate:panic:{}", pn.file()), json!({"panic": pn.msg, "at": pn.loc, "prog": describe(p)}));
                continue;
            }
        }
        // the same graph with every other constant held as a plain integer node (Node::Constant - the form graphs
        // have before the Montgomery conversion; it cannot be stored, only evaluated)
        if k == 0 {
            let mut flip = false;
            let plain: Vec<Node> = zk_nodes
                .iter()
                .zip(p.nodes.iter())
                .map(|(z, r)| match r {
                    RNode::Const(c) => {
                        flip = !flip;
                        if flip { Node::Constant(crate::props::c19::big_to_u256(c)) } else { *z }
                    }
                    _ => *z,
                })
                .collect();
            if plain != zk_nodes {
                rep.ev();
                match catch(|| graph::evaluate(&plain, &uin, &p.outputs)) {
                    Ok(v) => {
                        let g: Vec<BigUint> = v.iter().map(fr_to_big).collect();
                        if g != want {
                            rep.violation(format!("{sig_prefix}:evaluate(plain-integer-constants):differs-from-reference"), json!({"prog": describe(p), "expected": want.iter().take(10).map(|x| x.to_string()).collect::<Vec<_>>()}));
                        }
                    }
                    Err(pn) => rep.violation(format!("{sig_prefix}:evaluate(plain-integer-constants):panic:{}", pn.file()), json!({"panic": pn.msg, "at": pn.loc, "prog": describe(p)})),
                }
                rep.stratum(format!("plain-integer-constants|{}", p.shape));
            }
        }
        if bad {
            // locate the first diverging node and re-evaluate that operator in isolation
            let all: Vec<usize> = (0..p.nodes.len()).collect();
            let mut attributed = false;
            if let Ok(v) = catch(|| graph::evaluate(&zk_nodes, &uin, &all)) {
                for (i, g) in v.iter().enumerate() {
                    if fr_to_big(g) != want_all[i] {
                        if let RNode::Op(op, a, b) = &p.nodes[i] {
                            let iso = catch(|| to_rln(*op).eval_fr(big_to_fr(&want_all[*a]), big_to_fr(&want_all[*b])));
                            if iso.map(|r| fr_to_big(&r) != want_all[i]).unwrap_or(true) {
                                rep.violation(format!("operator-in-isolation:{:?}(see C19)", op), json!({"a": want_all[*a].to_string(), "b": want_all[*b].to_string(), "expected": want_all[i].to_string()}));
                                attributed = true;
                            }
                        }
                        if !attributed {
                            rep.violation(format!("{sig_prefix}:evaluation:differs-from-reference"), json!({"first_diverging_node": i, "node": format!("{:?}", p.nodes[i]), "expected": want_all[i].to_string(), "got": fr_s(g), "prog": describe(p)}));
                            attributed = true;
                        }
                        break;
                    }
                }
            }
            if !attributed {
                rep.violation(format!("{sig_prefix}:outputs:differ-from-reference"), json!({"prog": describe(p), "expected": want.iter().take(10).map(|x| x.to_string()).collect::<Vec<_>>()}));
            }
        }
    }
}

pub fn run(rep: &mut Rep) {
    rep.rule = "random well-formed graphs: DAGs with backward references over {Input, MontConstant, 19 binary operators, Neg, TernCond}, 1..300 nodes (to 5000 in thorough), output lists with repeats, 0..4 named input vectors (lengths 0..20) at arbitrary non-overlapping offsets (position 0 = constant 1); three layouts reported separately (inputs-first and constants-first = canonical, scattered Input nodes); each graph: serialize -> deserialize equality, calc_witness on the bytes with shuffled named inputs and graph::evaluate on the in-memory graph (also with constants held as plain integer nodes), 3 assignments each (boundary-heavy and random), compared with the big-integer reference interpreter. distinct_nontrivial = distinct (layout, size class, #named inputs, #operators) and (layout, operator used) keys".into();
    rep.assumptions = vec!["reference interpreter = circomref semantics applied node by node".into()];
    let thorough = rep.thorough();
    let nprogs = if thorough { 400_000 } else { 24_000 };
    let nsh = ncpu();
    let seed = rep.seed;
    par_shards(rep, nsh, |sh, r| {
        let ctx = Ctx::new();
        let mut rng = rng_for(seed, &format!("c20-{sh}"));
        for i in 0..nprogs / nsh {
            let max_nodes = match i % 50 {
                0 => if thorough { 5000 } else { 1200 },
                1..=5 => 300,
                6..=20 => 40,
                _ => 8,
            };
            let p = gen_prog(&mut rng, max_nodes, i);
            check_prog(r, &ctx, &mut rng, &p);
        }
    });
    // large graphs: node indices above 2^14 / 2^16 (multi-byte varints, u16 truncations) -- generated ones and the
    // bundled RLN graph re-serialised
    {
        let ctx = Ctx::new();
        let mut rng = rng_for(seed, "c20-large");
        for (k, n) in (if thorough { vec![20_000usize, 70_000, 140_000] } else { vec![20_000usize, 70_000] }).into_iter().enumerate() {
            let mut p = gen_prog(&mut rng, 40, k);
            // extend with a long chain of cheap operations whose operands are far apart
            while p.nodes.len() < n {
                let len = p.nodes.len();
                let a = if rng.gen_bool(0.5) { len - 1 } else { rng.gen_range(0..len) };
                let b = rng.gen_range(0..len);
                p.nodes.push(RNode::Op([Op::Add, Op::Mul, Op::Sub, Op::Bxor][rng.gen_range(0..4)], a, b));
            }
            p.outputs = (0..24).map(|_| rng.gen_range(0..p.nodes.len())).chain([p.nodes.len() - 1, 16_383.min(p.nodes.len() - 1), 16_384.min(p.nodes.len() - 1), 65_535.min(p.nodes.len() - 1), 65_536.min(p.nodes.len() - 1)]).collect();
            check_prog(rep, &ctx, &mut rng, &p);
            rep.stratum(format!("large-graph|{}k-nodes", n / 1000));
        }
        // bundled graph: decode -> encode -> decode must give an equal graph, and the re-encoded bytes must
        // evaluate to the same witness
        let orig = rln::circuit::graph_from_folder();
        rep.ev();
        match catch(|| deserialize_witnesscalc_graph(std::io::Cursor::new(orig))) {
            Ok(Ok((nodes, signals, inputs))) => {
                let mut bytes = vec![];
                match catch(|| serialize_witnesscalc_graph(&mut bytes, &nodes, &signals, &inputs)) {
                    Ok(Ok(())) => match catch(|| deserialize_witnesscalc_graph(std::io::Cursor::new(&bytes))) {
                        Ok(Ok((n2, s2, i2))) => {
                            if n2 != nodes || s2 != signals || i2 != inputs {
                                rep.violation("bundled-graph:storage-roundtrip:differs", json!({"nodes": nodes.len()}));
                            } else {
                                rep.count("bundled_graph_roundtrip_equal");
                                rep.stratum(format!("bundled-graph|{}-nodes|{}-signals", nodes.len(), signals.len()));
                                // evaluation through the re-encoded bytes equals evaluation through the original file
                                let mut named: Vec<(String, Vec<Fr>)> = inputs.iter().map(|(k, (_, l))| (k.clone(), (0..*l).map(|j| if k == "identityPathIndex" { Fr::from((j % 2) as u64) } else if k == "userMessageLimit" { Fr::from(100u64) } else if k == "messageId" { Fr::from(3u64) } else { rand_fr(&mut rng) }).collect())).collect();
                                named.sort_by(|a, b| a.0.cmp(&b.0));
                                let w1 = catch(|| calc_witness(named.clone(), orig));
                                let w2 = catch(|| calc_witness(named.clone(), &bytes));
                                match (w1, w2) {
                                    (Ok(a), Ok(b)) if a == b => rep.count("bundled_graph_reencoded_evaluates_equal"),
                                    (Ok(_), Ok(_)) => rep.violation("bundled-graph:reencoded-evaluates-differently", json!({})),
                                    _ => rep.violation("bundled-graph:evaluation-panicked", json!({})),
                                }
                            }
                        }
                        _ => rep.violation("bundled-graph:reencoded-bytes-do-not-decode", json!({"bytes": bytes.len()})),
                    },
                    _ => rep.violation("bundled-graph:serialize-failed", json!({})),
                }
            }
            _ => rep.inconclusive("bundled graph does not decode".to_string()),
        }
    }
    // hand-written corner cases
    {
        let ctx = Ctx::new();
        let mut rng = rng_for(seed, "c20-corners");
        let corners = vec![
            Prog { nodes: vec![RNode::Input(0)], outputs: vec![], layout: vec![], inputs_size: 1, shape: "inputs-first" },
            Prog { nodes: vec![RNode::Input(0)], outputs: vec![0, 0, 0], layout: vec![], inputs_size: 1, shape: "inputs-first" },
            Prog { nodes: vec![RNode::Const(BigUint::from(5u8))], outputs: vec![0], layout: vec![], inputs_size: 1, shape: "consts-first" },
            Prog {
                nodes: vec![RNode::Input(0), RNode::Input(1), RNode::Const(BigUint::from(3u8)), RNode::Op(Op::Add, 0, 1), RNode::Input(2), RNode::Op(Op::Mul, 3, 4)],
                outputs: vec![5],
                layout: vec![("a".into(), 1, 1), ("b".into(), 2, 1)],
                inputs_size: 3,
                shape: "scattered",
            },
        ];
        for p in corners {
            check_prog(rep, &ctx, &mut rng, &p);
        }
        let p = gen_prog(&mut rng, 8, 0);
        rep.sample(json!({"program": describe(&p)}));
        let p = gen_prog(&mut rng, 8, 2);
        rep.sample(json!({"program": describe(&p)}));
    }
}
