//! C01 -- every proof generated for a valid membership and message verifies.
//! Validity is established independently of zerokit (rate commitment from the reference Poseidon,
//! shadow Merkle model of the tree history, reference generator accepts the circuit inputs); then
//! all four proving entry points must succeed and all acceptance calls must return Ok(true).
#![cfg(not(feature = "stateless"))]

use crate::codec::*;
use crate::common::*;
use crate::model::Model;
use crate::noderef::*;
use crate::rlnx::*;
use crate::trees::poseidon_h;
use ark_bn254::Fr;
use ark_serialize::CanonicalSerialize;
use rand::Rng;
use rln::public::RLN;
use serde_json::json;
use std::io::Cursor;

pub struct Ctx {
    pub rln: RLN,
    pub model: Model,
    pub node: Option<NodeRef>,
}

impl Ctx {
    pub fn new() -> Result<Ctx, String> {
        let rln = match catch(|| RLN::new(20, Cursor::new("{}".to_string()))) {
            Ok(Ok(r)) => r,
            Ok(Err(e)) => return Err(format!("RLN::new: {e}")),
            Err(p) => return Err(format!("RLN::new panicked: {}", p.msg)),
        };
        Ok(Ctx { rln, model: Model::new(20, poseidon_h, Fr::from(0u64)), node: NodeRef::spawn().ok() })
    }
    /// sets a leaf in both the instance and the model
    pub fn set(&mut self, i: usize, v: Fr) -> bool {
        let ok = self.rln.set_leaf(i, Cursor::new(enc_fr(&v))).is_ok();
        if ok {
            self.model.set(i, v);
        }
        ok
    }
    pub fn delete(&mut self, i: usize) -> bool {
        let ok = self.rln.delete_leaf(i).is_ok();
        if ok {
            self.model.delete(i);
        }
        ok
    }
    pub fn root(&mut self) -> Fr {
        let mut o = vec![];
        self.rln.get_root(&mut o).unwrap();
        dec_frs(&o, 1).unwrap()[0]
    }
}

#[derive(Clone, Debug)]
pub struct Case {
    pub secret: Fr,
    pub index: usize,
    pub limit: u64,
    pub id: u64,
    pub ext: Fr,
    pub signal: Vec<u8>,
    pub label: String,
    pub place: usize,
}

pub fn index_classes() -> Vec<(String, usize)> {
    vec![
        ("0".into(), 0),
        ("1".into(), 1),
        ("2^19-1".into(), (1 << 19) - 1),
        ("2^19".into(), 1 << 19),
        ("2^20-2".into(), (1 << 20) - 2),
        ("2^20-1".into(), (1 << 20) - 1),
        ("2^16+1".into(), (1 << 16) + 1),
        ("2^17".into(), 1 << 17),
        // positions a batch removal list (one byte per index) can name, next to the member
        ("5".into(), 5),
        ("100".into(), 100),
        ("254".into(), 254),
    ]
}

pub fn signal_classes(rng: &mut impl rand::RngCore) -> Vec<(String, Vec<u8>)> {
    vec![
        ("empty".into(), vec![]),
        ("1B".into(), vec![0]),
        ("135B".into(), rand_bytes(rng, 135)),
        ("136B".into(), rand_bytes(rng, 136)),
        ("137B".into(), rand_bytes(rng, 137)),
        ("10kB".into(), rand_bytes(rng, 10_000)),
        ("32B".into(), rand_bytes(rng, 32)),
    ]
}

pub fn gen_cases(rng: &mut impl rand::RngCore, n: usize) -> Vec<Case> {
    let grid = fr_boundary();
    let idxs = index_classes();
    let mut out = vec![];
    for k in 0..n {
        let (il, index) = if k % 3 == 2 { ("random".to_string(), rng.gen_range(0..(1usize << 20))) } else { idxs[(k / 2) % idxs.len()].clone() };
        let limit = LIMITS[k % LIMITS.len()];
        let ids = ids_for(limit);
        let id = ids[(k / LIMITS.len() + k) % ids.len()];
        let (sl, secret) = if k % 2 == 0 { grid[(k / 2) % grid.len()].clone() } else { ("random".to_string(), rand_fr(rng)) };
        let (el, ext) = if k % 3 == 0 { grid[(k / 3 + 5) % grid.len()].clone() } else { ("random".to_string(), rand_fr(rng)) };
        let sigs = signal_classes(rng);
        let (gl, signal) = if k % 29 == 28 { ("1MB".to_string(), rand_bytes(rng, 1 << 20)) } else { sigs[k % sigs.len()].clone() };
        out.push(Case {
            secret,
            index,
            limit,
            id,
            ext,
            signal,
            label: format!("idx={il}|limit={limit}|id={}|s={sl}|e={el}|sig={gl}", id_class(id, limit)),
            place: k % 5,
        });
    }
    out
}

/// put the rate commitment at `index` using one of the mutators; returns false if the mutator failed
pub fn place(c: &mut Ctx, case: &Case, rng: &mut impl rand::RngCore) -> Result<&'static str, String> {
    let rc = rate_commitment_ref(&case.secret, &Fr::from(case.limit));
    let i = case.index;
    let how;
    match case.place {
        // (range writes far to the right are very slow in pmtree: only below 2^12 or in the last three leaves)
        1 if i + 3 <= (1 << 12) => {
            how = "set_leaves_from";
            let extra = [rc, rand_fr(rng), rand_fr(rng)];
            c.rln.set_leaves_from(i, Cursor::new(enc_vec_fr(&extra))).map_err(|e| format!("set_leaves_from: {e}"))?;
            c.model.write_range(i, &extra);
        }
        2 if i < 256 => {
            how = "atomic_operation";
            // remove the position itself (inside the written range) and write the commitment there
            c.rln
                .atomic_operation(i, Cursor::new(enc_vec_fr(&[rc])), Cursor::new(enc_vec_u8(&[i as u8])))
                .map_err(|e| format!("atomic_operation: {e}"))?;
            c.model.batch(i, &[rc], &[i]);
        }
        3 if c.model.mark == i => {
            how = "set_next_leaf";
            c.rln.set_next_leaf(Cursor::new(enc_fr(&rc))).map_err(|e| format!("set_next_leaf: {e}"))?;
            c.model.append(rc);
        }
        4 if i < 40 && rng.gen_range(0..3) == 0 => {
            how = "init_tree_with_leaves";
            let mut leaves: Vec<Fr> = (0..=i).map(|_| rand_fr(rng)).collect();
            leaves[i] = rc;
            c.rln.init_tree_with_leaves(Cursor::new(enc_vec_fr(&leaves))).map_err(|e| format!("init_tree_with_leaves: {e}"))?;
            c.model.reset();
            c.model.write_range(0, &leaves);
        }
        _ => {
            how = "set_leaf";
            if !c.set(i, rc) {
                return Err("set_leaf failed".into());
            }
        }
    }
    // other leaves: set, delete and overwrite on both sides, some after the member was inserted
    for _ in 0..rng.gen_range(0..4) {
        let j = match rng.gen_range(0..4) {
            0 => i ^ 1,
            1 => (i + 2) % (1 << 20),
            2 => i.saturating_sub(3),
            _ => rng.gen_range(0..(1usize << 20)),
        };
        if j == i {
            continue;
        }
        if rng.gen_bool(0.3) {
            c.delete(j);
        } else {
            c.set(j, rand_fr(rng));
        }
    }
    // batch updates right next to the member (the batch path of the backends differs from the single-leaf one):
    // removal lists naming a neighbour once, twice or unsorted, and a range written directly behind the member
    static NEIGHBOUR_BATCH_NO: std::sync::atomic::AtomicUsize = std::sync::atomic::AtomicUsize::new(0);
    if i >= 2 && i + 1 < 256 {
        // every eligible case gets one; the four shapes rotate
        let rm: Vec<usize> = match NEIGHBOUR_BATCH_NO.fetch_add(1, std::sync::atomic::Ordering::Relaxed) % 4 {
            0 => vec![i - 1, i - 1],
            1 => vec![i + 1, i - 1],
            2 => vec![i - 2, i - 1, i - 1, i - 2],
            _ => vec![i - 1],
        };
        let rm8: Vec<u8> = rm.iter().map(|x| *x as u8).collect();
        let start = *rm.iter().min().unwrap();
        if c.rln.atomic_operation(start, Cursor::new(enc_vec_fr(&[])), Cursor::new(enc_vec_u8(&rm8))).is_ok() {
            c.model.batch(start, &[], &rm);
        }
    }
    if i + 4 <= (1 << 12) && rng.gen_range(0..4) == 0 {
        let extra = [rand_fr(rng), rand_fr(rng)];
        if c.rln.set_leaves_from(i + 1, Cursor::new(enc_vec_fr(&extra))).is_ok() {
            c.model.write_range(i + 1, &extra);
        }
    }
    Ok(how)
}

pub fn witness_from_model(c: &Ctx, case: &Case) -> Witness {
    let (path, bits) = c.model.proof(case.index);
    Witness {
        secret: case.secret,
        limit: Fr::from(case.limit),
        msg_id: Fr::from(case.id),
        path,
        bits,
        x: crate::refhash::hash_to_field_ref(&case.signal),
        ext: case.ext,
    }
}

/// all acceptance calls on a message; returns the list of calls that did not return Ok(true)
pub fn acceptance(c: &mut Ctx, msg: &[u8], signal: &[u8], root: &Fr, rng: &mut impl rand::RngCore) -> Vec<String> {
    let mut bad = vec![];
    let vreq = enc_verify_request(msg, signal);
    let mut chk = |name: &str, r: Result<Result<bool, String>, Panicked>| match r {
        Ok(Ok(true)) => {}
        Ok(Ok(false)) => bad.push(format!("{name}:false")),
        Ok(Err(e)) => bad.push(format!("{name}:err:{}", e.chars().take(40).collect::<String>())),
        Err(p) => bad.push(format!("{name}:panic:{}", p.file())),
    };
    chk("verify_rln_proof", catch(|| c.rln.verify_rln_proof(Cursor::new(vreq.clone())).map_err(|e| e.to_string())));
    chk("verify_with_roots[root]", catch(|| c.rln.verify_with_roots(Cursor::new(vreq.clone()), Cursor::new(enc_fr(root))).map_err(|e| e.to_string())));
    // among decoys, at a random position
    let n = rng.gen_range(1..8);
    let pos = rng.gen_range(0..=n);
    let mut roots = vec![];
    for k in 0..=n {
        roots.extend(enc_fr(&if k == pos { *root } else { rand_fr(rng) }));
    }
    chk("verify_with_roots[decoys]", catch(|| c.rln.verify_with_roots(Cursor::new(vreq.clone()), Cursor::new(roots.clone())).map_err(|e| e.to_string())));
    chk("verify", catch(|| c.rln.verify(Cursor::new(msg.to_vec())).map_err(|e| e.to_string())));
    bad
}

pub fn run_case(rep: &mut Rep, c: &mut Ctx, case: &Case, rng: &mut impl rand::RngCore, entry: usize) {
    let how = match place(c, case, rng) {
        Ok(h) => h,
        Err(e) => {
            rep.violation("tree-mutator-failed-on-valid-request", json!({"case": case.label, "error": e}));
            return;
        }
    };
    // the instance's root must be the model's (C06 decides that; here it is a precondition)
    let root = c.root();
    if root != c.model.root() {
        rep.count("precondition_failed:tree-root-differs-from-model(see C06/C08)");
        rep.inconclusive("tree root differs from the model after placing the commitment (C06/C08 territory)".to_string());
        // resynchronise: fresh instance and model
        if let Ok(n) = Ctx::new() {
            *c = n;
        }
        return;
    }
    let w = witness_from_model(c, case);
    let want = ref_values(&w);
    if want.root != root {
        rep.inconclusive("model path does not fold to the model root".to_string());
        return;
    }
    // the reference generator must accept the inputs (validity of the request)
    let mut ref_full: Option<Vec<num_bigint::BigUint>> = None;
    if let Some(n) = c.node.as_mut() {
        match n.query_rln(&w, entry == 2) {
            Ok(RefOut::Ok { full, .. }) => ref_full = full,
            Ok(RefOut::Rejected(e)) => {
                rep.inconclusive(format!("reference generator rejects a request the generator considered valid: {e}"));
                return;
            }
            Err(e) => {
                rep.inconclusive(format!("node: {e}"));
                c.node = None;
            }
        }
    }
    let ename = ["E1:generate_rln_proof", "E2:generate_rln_proof_with_witness", "E3:generate_proof_with_witness(ref witness)", "E4:prove+verify"][entry];
    rep.ev();
    rep.stratum(format!("{ename}|{}|via={how}", case.label));
    let detail = |extra: serde_json::Value| json!({"case": case.label, "entry": ename, "placed_via": how, "index": case.index, "limit": case.limit, "id": case.id, "secret": fr_s(&case.secret), "ext": fr_s(&case.ext), "signal": hex_short(&case.signal), "more": extra});
    let msg: Vec<u8> = match entry {
        0 => {
            let req = enc_prove_request(&case.secret, case.index as u64, &Fr::from(case.limit), &Fr::from(case.id), &case.ext, &case.signal);
            let mut out = vec![];
            match catch(|| c.rln.generate_rln_proof(Cursor::new(req), &mut out).map_err(|e| e.to_string())) {
                Ok(Ok(())) => out,
                Ok(Err(e)) => {
                    rep.violation(format!("{}:err-on-valid-request", ename.split(':').next().unwrap()), detail(json!({"err": e})));
                    return;
                }
                Err(p) => {
                    rep.violation(format!("{}:panic-on-valid-request:{}", ename.split(':').next().unwrap(), p.file()), detail(json!({"panic": p.msg, "at": p.loc})));
                    return;
                }
            }
        }
        1 => {
            let mut out = vec![];
            match catch(|| c.rln.generate_rln_proof_with_witness(Cursor::new(enc_witness(&w)), &mut out).map_err(|e| e.to_string())) {
                Ok(Ok(())) => out,
                Ok(Err(e)) => {
                    rep.violation("E2:err-on-valid-request", detail(json!({"err": e})));
                    return;
                }
                Err(p) => {
                    rep.violation(format!("E2:panic-on-valid-request:{}", p.file()), detail(json!({"panic": p.msg, "at": p.loc})));
                    return;
                }
            }
        }
        2 => {
            // externally computed witness vector: the reference generator's when available
            let wit: Vec<num_bigint::BigInt> = match &ref_full {
                Some(f) => {
                    rep.count("E3_with_reference_witness");
                    // witness calculators hand the vector over either as canonical residues or in the signed
                    // representation (values above p/2 as negative integers); the entry point accepts both
                    let signed = case.index % 2 == 1 || case.label.contains("p-");
                    if signed {
                        rep.count("E3_signed_representation");
                        let pm = p();
                        let half = &pm >> 1;
                        f.iter().map(|x| if x > &half { num_bigint::BigInt::from(x.clone()) - num_bigint::BigInt::from(pm.clone()) } else { num_bigint::BigInt::from(x.clone()) }).collect()
                    } else {
                        f.iter().map(|x| num_bigint::BigInt::from(x.clone())).collect()
                    }
                }
                None => {
                    rep.count("E3_with_zerokit_witness(fallback)");
                    rln::circuit::calculate_rln_witness(named_inputs(&w), rln::circuit::graph_from_folder()).iter().map(|x| num_bigint::BigInt::from(fr_to_big(x))).collect()
                }
            };
            match catch(|| rln::protocol::generate_proof_with_witness(wit, rln::circuit::zkey_from_folder()).map_err(|e| e.to_string())) {
                Ok(Ok(proof)) => {
                    let mut m = vec![];
                    proof.serialize_compressed(&mut m).unwrap();
                    m.extend(enc_proof_values(&want));
                    m
                }
                Ok(Err(e)) => {
                    rep.violation("E3:err-on-valid-request", detail(json!({"err": e})));
                    return;
                }
                Err(p) => {
                    rep.violation(format!("E3:panic-on-valid-request:{}", p.file()), detail(json!({"panic": p.msg, "at": p.loc})));
                    return;
                }
            }
        }
        _ => {
            let mut out = vec![];
            match catch(|| c.rln.prove(Cursor::new(enc_witness(&w)), &mut out).map_err(|e| e.to_string())) {
                Ok(Ok(())) => {
                    out.extend(enc_proof_values(&want));
                    out
                }
                Ok(Err(e)) => {
                    rep.violation("E4:err-on-valid-request", detail(json!({"err": e})));
                    return;
                }
                Err(p) => {
                    rep.violation(format!("E4:panic-on-valid-request:{}", p.file()), detail(json!({"panic": p.msg, "at": p.loc})));
                    return;
                }
            }
        }
    };
    // the message must carry exactly the independently computed public values (C04/C10 leg)
    match dec_message(&msg) {
        Some((_, pv)) => {
            if pv != want {
                rep.violation(format!("{}:message-values-differ-from-formulas", ename.split(':').next().unwrap()), detail(json!({"got": hex(&msg[128..]), "expected": hex(&enc_proof_values(&want))})));
                return;
            }
        }
        None => {
            rep.violation(format!("{}:message-layout", ename.split(':').next().unwrap()), detail(json!({"len": msg.len()})));
            return;
        }
    }
    let bad = acceptance(c, &msg, &case.signal, &root, rng);
    rep.countn("acceptance_calls", 4);
    if !bad.is_empty() {
        rep.violation(format!("{}:not-accepted:{}", ename.split(':').next().unwrap(), bad[0].split(':').take(2).collect::<Vec<_>>().join(":")), detail(json!({"failed_calls": bad, "message": hex(&msg)})));
    } else {
        rep.count("messages_accepted_by_all_four_calls");
        if rep.samples.len() < 4 {
            rep.sample(detail(json!({"message_hex": hex_short(&msg), "accepted_by": ["verify_rln_proof", "verify_with_roots[root]", "verify_with_roots[decoys]", "verify"]})));
        }
    }
}

pub fn run(rep: &mut Rep) {
    rep.rule = "valid requests: index in {0,1,2^19-1,2^19,2^20-2,2^20-1,2^16+1,2^17,random} x limit in {1,2,3,100,2^15,2^16-1,2^16} x id in {0,1,limit-1,limit/2,2^15-1,2^15,2^16-1,...} x secret/external nullifier in boundary grid + random x signal in {empty,1B,135/136/137B,10kB,32B,1MB}; commitment placed by set_leaf / set_leaves_from / atomic_operation / set_next_leaf / init_tree_with_leaves with other leaves set/deleted around; the four proving entry points in rotation; every message checked by verify_rln_proof, verify_with_roots (alone / among decoys) and verify. distinct_nontrivial = distinct (entry point, index class, limit, id class, secret class, nullifier class, signal class, mutator) tuples".into();
    rep.assumptions = vec![
        "validity of a request is decided by the reference Poseidon, the shadow Merkle model and rln.wasm".into(),
        "the instance's tree equals the model (decided by C06/C08; checked as a precondition per case)".into(),
    ];
    let bad = crate::refhash::self_test();
    if !bad.is_empty() {
        rep.inconclusive(format!("reference self-test failed: {:?}", bad));
        return;
    }
    let thorough = rep.thorough();
    let mut rng = rng_for(rep.seed, "c01");
    let n = if thorough { 1400 } else { 56 };
    let cases = gen_cases(&mut rng, n);
    let mut c = match Ctx::new() {
        Ok(c) => c,
        Err(e) => {
            rep.inconclusive(e);
            return;
        }
    };
    match &c.node {
        Some(nd) => rep.note("reference_generator", nd.hello.clone()),
        None => rep.inconclusive("node reference generator unavailable: validity confirmed by the model only, E3 uses zerokit's own witness".to_string()),
    }
    for (k, case) in cases.iter().enumerate() {
        run_case(rep, &mut c, case, &mut rng, k % 4);
    }
    // tree histories that include closing and reopening a persistent tree between registration and proving
    // (only the default backend is persistent)
    #[cfg(all(feature = "pm", not(feature = "full")))]
    {
        let n = if thorough { 24 } else { 3 };
        let base = std::env::temp_dir().join(format!("c01-persist-{}", std::process::id()));
        for k in 0..n {
            let case = &cases[(k * 7 + 1) % cases.len()];
            let path = format!("{}/db{k}", base.display());
            let cfg = format!(r#"{{"tree_config": {{"path": "{path}", "temporary": false, "cache_capacity": 50000000}}}}"#);
            let open = |cfg: &str| match catch(|| RLN::new(20, Cursor::new(cfg.to_string()))) {
                Ok(Ok(r)) => Some(r),
                _ => None,
            };
            let Some(mut r) = open(&cfg) else {
                rep.inconclusive("cannot open a persistent instance".to_string());
                continue;
            };
            let mut m = Model::new(20, poseidon_h, Fr::from(0u64));
            let rc = rate_commitment_ref(&case.secret, &Fr::from(case.limit));
            // some history before and after the registration, including deletions
            let mut writes: Vec<(usize, Fr)> = vec![(case.index, rc)];
            for j in 0..4 {
                let i = if j % 2 == 0 { (case.index ^ (1 << j)) % (1 << 20) } else { rng.gen_range(0..1usize << 20) };
                if i != case.index {
                    writes.push((i, rand_fr(&mut rng)));
                }
            }
            for (i, v) in &writes {
                let _ = r.set_leaf(*i, Cursor::new(enc_fr(v)));
                m.set(*i, *v);
            }
            if writes.len() > 2 {
                let d = writes[2].0;
                let _ = r.delete_leaf(d);
                m.delete(d);
            }
            if r.flush().is_err() {
                rep.inconclusive("flush failed".to_string());
                continue;
            }
            drop(r);
            let Some(r2) = open(&cfg) else {
                rep.violation("persistent:reopen-failed", json!({"case": case.label}));
                continue;
            };
            let mut pc = Ctx { rln: r2, model: m, node: None };
            if pc.root() != pc.model.root() {
                rep.inconclusive("reopened tree differs from the model (C16 territory)".to_string());
                continue;
            }
            rep.ev();
            rep.stratum(format!("E1-after-reopen|{}", case.label));
            let req = enc_prove_request(&case.secret, case.index as u64, &Fr::from(case.limit), &Fr::from(case.id), &case.ext, &case.signal);
            let mut out = vec![];
            match catch(|| pc.rln.generate_rln_proof(Cursor::new(req), &mut out).map_err(|e| e.to_string())) {
                Ok(Ok(())) => {
                    let root = pc.model.root();
                    let bad = acceptance(&mut pc, &out, &case.signal, &root, &mut rng);
                    if !bad.is_empty() {
                        rep.violation("E1-after-reopen:not-accepted", json!({"case": case.label, "failed_calls": bad}));
                    } else {
                        rep.count("messages_accepted_after_reopen");
                    }
                }
                Ok(Err(e)) => rep.violation("E1-after-reopen:err-on-valid-request", json!({"case": case.label, "index": case.index, "err": e})),
                Err(p) => rep.violation(format!("E1-after-reopen:panic-on-valid-request:{}", p.file()), json!({"case": case.label, "panic": p.msg})),
            }
        }
        let _ = std::fs::remove_dir_all(&base);
    }
}
