//! C02 -- verification accepts only untampered messages bound to signal and root.
//! Mutation monitor: for each accepted message every decoded field, the signal, its declared
//! length, every bit of the proof part, the verifier's tree and the root set are modified so that
//! one of the three acceptance conditions fails; verification must never return Ok(true).
//! Positive controls (restored tree, root at every position of the set) show the monitor can see
//! acceptance.
#![cfg(not(feature = "stateless"))]

use crate::codec::*;
use crate::common::*;
use crate::props::c01::{self, Ctx};

use ark_bn254::Fr;
use num_bigint::BigUint;
use rand::Rng;
use serde_json::json;
use std::io::Cursor;

#[derive(PartialEq, Debug, Clone)]
pub enum V {
    True,
    False,
    Err,
    Panic(String),
}

pub fn v_rln(c: &Ctx, req: &[u8]) -> V {
    match catch(|| c.rln.verify_rln_proof(Cursor::new(req.to_vec()))) {
        Ok(Ok(true)) => V::True,
        Ok(Ok(false)) => V::False,
        Ok(Err(_)) => V::Err,
        Err(p) => V::Panic(p.file()),
    }
}
pub fn v_roots(c: &Ctx, req: &[u8], roots: &[u8]) -> V {
    match catch(|| c.rln.verify_with_roots(Cursor::new(req.to_vec()), Cursor::new(roots.to_vec()))) {
        Ok(Ok(true)) => V::True,
        Ok(Ok(false)) => V::False,
        Ok(Err(_)) => V::Err,
        Err(p) => V::Panic(p.file()),
    }
}
pub fn v_raw(c: &Ctx, msg: &[u8]) -> V {
    match catch(|| c.rln.verify(Cursor::new(msg.to_vec()))) {
        Ok(Ok(true)) => V::True,
        Ok(Ok(false)) => V::False,
        Ok(Err(_)) => V::Err,
        Err(p) => V::Panic(p.file()),
    }
}

fn note_panic(rep: &mut Rep, v: &V) {
    if let V::Panic(f) = v {
        rep.count(&format!("panics_counted_as_not_true(see C13)|{f}"));
    }
}

const FIELDS: [&str; 5] = ["root", "external_nullifier", "x", "y", "nullifier"];

pub fn mutate_message(rep: &mut Rep, c: &mut Ctx, msg: &[u8], signal: &[u8], root: &Fr, rng: &mut impl rand::RngCore, label: &str, all_bits: bool) {
    let p = p();
    let pv = dec_message(msg).unwrap().1;
    let vals = [pv.root, pv.ext, pv.x, pv.y, pv.nullifier];
    let roots1 = enc_fr(root);
    // control: the untouched message is accepted by all three
    let req = enc_verify_request(msg, signal);
    if v_rln(c, &req) != V::True || v_roots(c, &req, &roots1) != V::True || v_raw(c, msg) != V::True {
        rep.inconclusive("control failed: the unmodified message is not accepted (C01 territory)".to_string());
        return;
    }
    rep.count("controls_accepted");
    // (a) public values
    for (fi, fname) in FIELDS.iter().enumerate() {
        let orig = fr_to_big(&vals[fi]);
        let mut cands: Vec<(String, BigUint)> = vec![
            ("+1".into(), (&orig + 1u32) % &p),
            ("-1".into(), (&orig + &p - 1u32) % &p),
            ("0".into(), BigUint::from(0u8)),
            ("p-1".into(), &p - 1u32),
            ("random".into(), rand_big_below(rng, &p)),
        ];
        for (oj, other) in FIELDS.iter().enumerate() {
            if oj != fi {
                cands.push((format!("={other}"), fr_to_big(&vals[oj])));
            }
        }
        for (ml, nv) in cands {
            if nv == orig {
                continue; // same field element: not a tampering
            }
            let mut m2 = msg.to_vec();
            m2[128 + 32 * fi..128 + 32 * fi + 32].copy_from_slice(&big_to_le32(&nv));
            let req2 = enc_verify_request(&m2, signal);
            for (which, v) in [("verify_rln_proof", v_rln(c, &req2)), ("verify_with_roots", v_roots(c, &req2, &roots1)), ("verify", v_raw(c, &m2))] {
                rep.ev();
                note_panic(rep, &v);
                if v == V::True {
                    rep.violation(format!("{which}:accepts-modified-{fname}"), json!({"case": label, "mutation": ml, "field": fname, "message": hex(&m2), "signal": hex_short(signal)}));
                }
            }
            rep.stratum(format!("field|{fname}|{ml}"));
            // consistent tampering: the root condition is made to hold for the modified message (the supplied set
            // contains the carried - modified - root, alone and in a window together with the genuine one; or the
            // set is empty, which skips the root condition), so that only the binding of the zk-proof to the carried
            // values can refuse it. The genuine message was accepted by this instance just before (control above).
            let carried = m2[128..160].to_vec();
            let window = [rand_bytes(rng, 32), carried.clone(), roots1.clone()].concat();
            for (which, roots) in [("set={carried}", carried.clone()), ("set={other,carried,genuine}", window), ("set=empty", vec![])] {
                rep.ev();
                let v = v_roots(c, &req2, &roots);
                note_panic(rep, &v);
                if v == V::True {
                    rep.violation(format!("verify_with_roots:accepts-modified-{fname}-when-the-root-condition-holds"), json!({"case": label, "mutation": ml, "field": fname, "root_set": which, "message": hex(&m2)}));
                }
                rep.stratum(format!("field-consistent|{fname}|{which}"));
            }
        }
    }
    // (b) signal and its declared length (verify_rln_proof / verify_with_roots)
    let mut sigs: Vec<(String, Vec<u8>, Option<u64>)> = vec![];
    if signal.len() <= 64 {
        for i in 0..signal.len() {
            for bit in [0u8, 7] {
                let mut s = signal.to_vec();
                s[i] ^= 1 << bit;
                sigs.push((format!("flip-byte"), s, None));
            }
        }
    } else {
        for _ in 0..24 {
            let mut s = signal.to_vec();
            let i = rng.gen_range(0..s.len());
            s[i] ^= 1 << rng.gen_range(0..8);
            sigs.push(("flip-random-bit".into(), s, None));
        }
        for i in [0, signal.len() - 1, 135.min(signal.len() - 1), 136.min(signal.len() - 1)] {
            let mut s = signal.to_vec();
            s[i] ^= 0x80;
            sigs.push(("flip-boundary-byte".into(), s, None));
        }
    }
    if !signal.is_empty() {
        sigs.push(("truncate-1".into(), signal[..signal.len() - 1].to_vec(), None));
        sigs.push(("drop-first".into(), signal[1..].to_vec(), None));
        sigs.push(("empty".into(), vec![], None));
        // declared length one less than the bytes present (same buffer): hashes a shorter signal
        sigs.push(("declared-len-1".into(), signal.to_vec(), Some(signal.len() as u64 - 1)));
    } else {
        sigs.push(("nonempty-instead-of-empty".into(), vec![0], None));
    }
    let mut ext = signal.to_vec();
    ext.push(0);
    sigs.push(("append-zero".into(), ext.clone(), None));
    // declared length one more, buffer extended accordingly (so that the parse succeeds)
    sigs.push(("declared-len+1".into(), ext, Some(signal.len() as u64 + 1)));
    // the same bytes under a length field that differs only in its upper half (a reader of the low 32 bits only
    // would hash the original signal)
    for k in [32u32, 33, 47, 63] {
        sigs.push((format!("declared-len+2^{k}"), signal.to_vec(), Some(signal.len() as u64 + (1u64 << k))));
    }
    for (sl, s, declared) in sigs {
        let mut req2 = msg.to_vec();
        req2.extend(enc_u64(declared.unwrap_or(s.len() as u64)));
        req2.extend_from_slice(&s);
        // skip mutations that leave the hashed signal identical
        let hashed_len = declared.unwrap_or(s.len() as u64) as usize;
        if declared.map(|d| d <= s.len() as u64).unwrap_or(true) && s.len() >= hashed_len && s[..hashed_len] == signal[..] {
            continue;
        }
        for (which, v) in [("verify_rln_proof", v_rln(c, &req2)), ("verify_with_roots", v_roots(c, &req2, &roots1))] {
            rep.ev();
            note_panic(rep, &v);
            if v == V::True {
                rep.violation(format!("{which}:accepts-modified-signal"), json!({"case": label, "mutation": sl, "signal": hex_short(&s), "original_signal": hex_short(signal)}));
            }
        }
        rep.stratum(format!("signal|{sl}"));
    }
    // (c) single-bit flips of the proof part
    let bits: Vec<usize> = if all_bits { (0..1024).collect() } else { (0..1024).step_by(7).chain([0, 255, 256, 511, 512, 767, 768, 1023, 254, 510, 766, 1022]).collect() };
    for b in bits {
        let mut m2 = msg.to_vec();
        m2[b / 8] ^= 1 << (b % 8);
        let req2 = enc_verify_request(&m2, signal);
        let (which, v) = match b % 3 {
            0 => ("verify", v_raw(c, &m2)),
            1 => ("verify_rln_proof", v_rln(c, &req2)),
            _ => ("verify_with_roots", v_roots(c, &req2, &roots1)),
        };
        rep.ev();
        note_panic(rep, &v);
        if v == V::True {
            rep.violation(format!("{which}:accepts-proof-bit-flip"), json!({"case": label, "bit": b, "message": hex(&m2)}));
        }
        rep.stratum(format!("proofbit|{}|{}", b / 256, if b % 256 >= 254 { "flag-bits" } else { "coordinate" }));
    }
    // (e) root sets
    for n in 1..=8usize {
        let mut roots = vec![];
        for _ in 0..n {
            let mut r = rand_fr(rng);
            if r == *root {
                r += Fr::from(1u64);
            }
            roots.extend(enc_fr(&r));
        }
        rep.ev();
        let v = v_roots(c, &req, &roots);
        note_panic(rep, &v);
        if v == V::True {
            rep.violation("verify_with_roots:accepts-root-set-without-the-root", json!({"case": label, "set_size": n}));
        }
        // positive control: the root at every position of the set
        for pos in 0..n {
            let mut r2 = roots.clone();
            r2[32 * pos..32 * pos + 32].copy_from_slice(&enc_fr(root));
            rep.ev();
            if v_roots(c, &req, &r2) != V::True {
                rep.violation("verify_with_roots:rejects-set-containing-the-root", json!({"case": label, "set_size": n, "position": pos}));
            }
        }
        rep.stratum(format!("rootset|{n}"));
    }
    // root sets in which the root occurs more than once (a window of recent roots after the tree returned to an
    // earlier state): membership, not multiplicity, decides -> accepted
    for (l, pattern) in [("root,root", vec![1u8, 1]), ("root,other,root", vec![1, 0, 1]), ("other,root,root,root", vec![0, 1, 1, 1]), ("root*8", vec![1; 8])] {
        let mut rs = vec![];
        for b in pattern.iter() {
            rs.extend(enc_fr(&if *b == 1 { *root } else { *root + Fr::from(3u64) }));
        }
        rep.ev();
        rep.stratum(format!("rootset-duplicates|{l}"));
        if v_roots(c, &req, &rs) != V::True {
            rep.violation("verify_with_roots:rejects-set-containing-the-root", json!({"case": label, "root_set": l}));
        }
    }
    // special root sets that do not contain the root: all-zero windows, small constants, duplicates of a wrong
    // root, the root's bytes at an unaligned offset, a partial trailing element
    {
        let zero = enc_fr(&Fr::from(0u64));
        let mut specials: Vec<(String, Vec<u8>)> = vec![];
        for n in 1..=4usize {
            specials.push((format!("zeros*{n}"), zero.repeat(n)));
        }
        let consts: Vec<u8> = [Fr::from(0u64), Fr::from(1u64), Fr::from(2u64), -Fr::from(1u64)].iter().flat_map(enc_fr).collect();
        specials.push(("constants{0,1,2,p-1}".into(), consts));
        let wrong = enc_fr(&(*root + Fr::from(7u64)));
        specials.push(("duplicates-of-wrong-root".into(), wrong.repeat(3)));
        let mut zeros_then_wrong = zero.repeat(2);
        zeros_then_wrong.extend(&wrong);
        specials.push(("zero-padded-window".into(), zeros_then_wrong));
        for off in [1usize, 8, 16, 31] {
            let mut v = vec![0u8; off];
            v.extend(enc_fr(root));
            v.extend(vec![0u8; 32 - off]);
            specials.push((format!("root-unaligned@{off}"), v));
        }
        let mut partial = wrong.clone();
        partial.extend(&enc_fr(root)[..31]);
        specials.push(("wrong-root+31-bytes-of-root".into(), partial));
        for (l, rs) in specials {
            rep.ev();
            rep.stratum(format!("rootset-special|{}", l.split('@').next().unwrap().split('*').next().unwrap()));
            // (an all-zero root is a legitimate root value only if it is the message's root)
            if *root == Fr::from(0u64) {
                continue;
            }
            let v = v_roots(c, &req, &rs);
            note_panic(rep, &v);
            if v == V::True {
                rep.violation("verify_with_roots:accepts-root-set-without-the-root", json!({"case": label, "root_set": l, "bytes": hex_short(&rs)}));
            }
        }
    }
    // near misses of the root
    for (l, nv) in [("root+1", *root + Fr::from(1u64)), ("root-1", *root - Fr::from(1u64)), ("-root", -*root)] {
        rep.ev();
        if nv != *root && v_roots(c, &req, &enc_fr(&nv)) == V::True {
            rep.violation("verify_with_roots:accepts-root-set-without-the-root", json!({"case": label, "near_miss": l}));
        }
    }
}

/// (d) verifier tree histories: any change of the tree makes verify_rln_proof reject; restoring accepts again
pub fn mutate_tree(rep: &mut Rep, c: &mut Ctx, msg: &[u8], signal: &[u8], member_index: usize, rng: &mut impl rand::RngCore, label: &str) {
    let req = enc_verify_request(msg, signal);
    if v_rln(c, &req) != V::True {
        rep.inconclusive("control failed before tree mutations".to_string());
        return;
    }
    let member_leaf = c.model.get(member_index);
    let mut steps: Vec<(String, usize, Fr)> = vec![];
    let other = if member_index == 0 { 1 } else { member_index - 1 };
    steps.push(("set-unrelated-leaf".into(), other, rand_fr(rng)));
    steps.push(("set-far-leaf".into(), (member_index + (1 << 19)) % (1 << 20), rand_fr(rng)));
    steps.push(("overwrite-member-leaf".into(), member_index, member_leaf + Fr::from(1u64)));
    for (what, idx, val) in steps {
        let old = c.model.get(idx);
        let old_mark = c.model.mark;
        if !c.set(idx, val) {
            rep.inconclusive("set_leaf failed during tree mutation".to_string());
            return;
        }
        rep.ev();
        rep.stratum(format!("tree|{what}"));
        let v = v_rln(c, &req);
        if v == V::True && c.model.root() != dec_message(msg).unwrap().1.root {
            rep.violation("verify_rln_proof:accepts-after-tree-change", json!({"case": label, "change": what, "index": idx}));
        }
        // the same message with the carried root rewritten to the verifier's NEW root: the root condition holds, the
        // zk-proof is not valid for that root
        if c.model.root() != dec_message(msg).unwrap().1.root {
            let mut m3 = msg.to_vec();
            m3[128..160].copy_from_slice(&enc_fr(&c.model.root()));
            rep.ev();
            rep.stratum(format!("tree|{what}|carried-root-rewritten-to-the-new-root"));
            if v_rln(c, &enc_verify_request(&m3, signal)) == V::True {
                rep.violation("verify_rln_proof:accepts-root-rewritten-to-the-new-tree-root", json!({"case": label, "change": what, "index": idx}));
            }
        }
        // restore the exact leaf value -> root returns -> accepted again (positive control)
        if !c.set(idx, old) {
            rep.inconclusive("restore failed".to_string());
            return;
        }
        let _ = old_mark;
        rep.ev();
        if v_rln(c, &req) != V::True {
            rep.violation("verify_rln_proof:rejects-after-tree-restored", json!({"case": label, "change": what, "index": idx}));
        }
    }
    // delete the member's leaf
    let old = c.model.get(member_index);
    if c.delete(member_index) {
        rep.ev();
        rep.stratum("tree|delete-member");
        if v_rln(c, &req) == V::True {
            rep.violation("verify_rln_proof:accepts-after-tree-change", json!({"case": label, "change": "delete-member", "index": member_index}));
        }
        let mut m3 = msg.to_vec();
        m3[128..160].copy_from_slice(&enc_fr(&c.model.root()));
        rep.ev();
        if v_rln(c, &enc_verify_request(&m3, signal)) == V::True {
            rep.violation("verify_rln_proof:accepts-root-rewritten-to-the-new-tree-root", json!({"case": label, "change": "delete-member", "index": member_index}));
        }
        c.set(member_index, old);
        rep.ev();
        if v_rln(c, &req) != V::True {
            rep.violation("verify_rln_proof:rejects-after-tree-restored", json!({"case": label, "change": "delete-member"}));
        }
    }
    // the whole tree replaced (the three ways the API offers, in rotation): the old message must not be accepted
    // against the new, different tree. The member is registered again afterwards for the steps that follow.
    static RESET_NO: std::sync::atomic::AtomicUsize = std::sync::atomic::AtomicUsize::new(0);
    let how = ["set_tree", "init_tree_with_leaves(none)", "init_tree_with_leaves(other)"][RESET_NO.fetch_add(1, std::sync::atomic::Ordering::Relaxed) % 3];
    let member_leaf = c.model.get(member_index);
    match how {
        "set_tree" => {
            let _ = catch(|| c.rln.set_tree(20).map_err(|e| e.to_string()));
            c.model.reset();
        }
        "init_tree_with_leaves(none)" => {
            // resets the tree, then refuses the empty write
            let _ = catch(|| c.rln.init_tree_with_leaves(Cursor::new(enc_vec_fr(&[]))).map_err(|e| e.to_string()));
            c.model.reset();
        }
        _ => {
            let v = [rand_fr(rng), rand_fr(rng)];
            let _ = catch(|| c.rln.init_tree_with_leaves(Cursor::new(enc_vec_fr(&v))).map_err(|e| e.to_string()));
            c.model.reset();
            c.model.write_range(0, &v);
        }
    }
    rep.ev();
    rep.stratum(format!("tree|replaced-by-{how}"));
    if c.root() != c.model.root() {
        rep.inconclusive(format!("tree after {how} differs from the model (C06/C16 territory)"));
    } else if c.model.root() != dec_message(msg).unwrap().1.root && v_rln(c, &req) == V::True {
        rep.violation("verify_rln_proof:accepts-after-tree-change", json!({"case": label, "change": how}));
    }
    if !c.set(member_index, member_leaf) {
        rep.inconclusive("could not register the member again after the reset".to_string());
    }
}

pub fn run(rep: &mut Rep) {
    rep.rule = "for each accepted message (different strata of C01's generator): (a) each of root/external nullifier/x/y/nullifier replaced by value+-1, 0, p-1, random and by every other field of the message, each also offered to verify_with_roots with a root set that makes the root condition hold for the modified message (the carried value alone, a window with it and the genuine root, the empty set); (b) signal byte/bit flips, truncation, extension, empty, declared length +-1 with a consistent buffer; (c) single-bit flips of the 1024 proof bits (all of them in thorough and for the first message in quick); (d) verifier tree: unrelated leaf set, far leaf set, member leaf overwritten/deleted, after each change also the message with its carried root rewritten to the verifier's new root, then restored (positive control), then the whole tree replaced by set_tree / init_tree_with_leaves; (e) root sets of size 1..8 without the root, with it at every position, near misses. Every mutated value is compared with the original as a field element first (aliases are C13's subject). distinct_nontrivial = distinct (mutation kind, field/position class) keys".into();
    rep.assumptions = vec!["Groth16 soundness (a proof for different public values is not forgeable by bit flips)".into(), "panics count as 'not true' here; crash-freedom is C13's".into()];
    let thorough = rep.thorough();
    let mut rng = rng_for(rep.seed, "c02");
    let mut c = match Ctx::new() {
        Ok(c) => c,
        Err(e) => {
            rep.inconclusive(e);
            return;
        }
    };
    let nmsg = if thorough { 40 } else { 4 };
    let cases = c01::gen_cases(&mut rng, nmsg * 3);
    let mut done = 0;
    let mut accepted: Vec<(Vec<u8>, Vec<u8>)> = vec![];
    for (k, case) in cases.iter().enumerate() {
        if done >= nmsg {
            break;
        }
        if case.signal.len() > 20_000 {
            continue;
        }
        if c01::place(&mut c, case, &mut rng).is_err() {
            continue;
        }
        let root = c.root();
        if root != c.model.root() {
            rep.inconclusive("tree differs from model (C06/C08)".to_string());
            if let Ok(n) = Ctx::new() {
                c = n;
            }
            continue;
        }
        let req = enc_prove_request(&case.secret, case.index as u64, &Fr::from(case.limit), &Fr::from(case.id), &case.ext, &case.signal);
        let mut msg = vec![];
        match catch(|| c.rln.generate_rln_proof(Cursor::new(req), &mut msg).map_err(|e| e.to_string())) {
            Ok(Ok(())) => {}
            _ => {
                rep.inconclusive("could not generate a message (C01 territory)".to_string());
                continue;
            }
        }
        let all_bits = thorough || done == 0;
        mutate_message(rep, &mut c, &msg, &case.signal, &root, &mut rng, &case.label, all_bits);
        mutate_tree(rep, &mut c, &msg, &case.signal, case.index, &mut rng, &case.label);
        accepted.push((msg.clone(), case.signal.clone()));
        // a second message of the same member (same tree state) for the splice leg
        {
            let sig2 = rand_bytes(&mut rng, 9);
            let id2 = if case.limit > 1 { (case.id + 1) % case.limit } else { case.id };
            let req2 = enc_prove_request(&case.secret, case.index as u64, &Fr::from(case.limit), &Fr::from(id2), &case.ext, &sig2);
            let mut msg2 = vec![];
            if let Ok(Ok(())) = catch(|| c.rln.generate_rln_proof(Cursor::new(req2), &mut msg2).map_err(|e| e.to_string())) {
                accepted.push((msg2, sig2));
            }
        }
        if done == 0 {
            rep.sample(json!({"case": case.label, "message_hex": hex_short(&msg), "signal": hex_short(&case.signal), "mutations_applied": "fields, signal, declared length, proof bits, tree, root sets"}));
        }
        done += 1;
        let _ = k;
    }
    // cross-message splices: proof of one accepted message with the values (or single fields) of another accepted
    // message of the same member -- every part is individually well formed
    if accepted.len() >= 2 {
        let pairs = accepted.len().min(if thorough { 12 } else { 3 });
        for i in 0..pairs {
            let (m1, s1) = accepted[i].clone();
            let (m2, s2) = accepted[(i + 1) % accepted.len()].clone();
            if m1[128..] == m2[128..] {
                continue;
            }
            let roots: Vec<u8> = [m1[128..160].to_vec(), m2[128..160].to_vec()].concat();
            let mut splices: Vec<(String, Vec<u8>, Vec<u8>)> = vec![];
            let mut sp = m1[..128].to_vec();
            sp.extend_from_slice(&m2[128..]);
            splices.push(("proof1+values2|signal2".into(), sp.clone(), s2.clone()));
            splices.push(("proof1+values2|signal1".into(), sp, s1.clone()));
            for f in 0..5usize {
                if m1[128 + 32 * f..160 + 32 * f] == m2[128 + 32 * f..160 + 32 * f] {
                    continue;
                }
                let mut sp = m1.clone();
                sp[128 + 32 * f..160 + 32 * f].copy_from_slice(&m2[128 + 32 * f..160 + 32 * f]);
                splices.push((format!("{}-from-other-message", FIELDS[f]), sp, s1.clone()));
            }
            splices.push(("message1|signal2".into(), m1.clone(), s2.clone()));
            for (l, m, sgn) in splices {
                let req = enc_verify_request(&m, &sgn);
                for (which, v) in [("verify_rln_proof", v_rln(&c, &req)), ("verify_with_roots", v_roots(&c, &req, &roots)), ("verify", v_raw(&c, &m))] {
                    // `verify` does not look at the signal: the pure signal swap is not a tampering for it
                    if which == "verify" && l == "message1|signal2" {
                        continue;
                    }
                    rep.ev();
                    note_panic(rep, &v);
                    if v == V::True {
                        rep.violation(format!("{which}:accepts-cross-message-splice"), json!({"splice": l, "message": hex(&m)}));
                    }
                }
                rep.stratum(format!("splice|{}", l));
            }
        }
    }
    rep.note("messages_mutated", json!(done));
    // empty root set is the documented skip: accepted
    rep.note("empty_root_set", json!("documented: root check skipped"));
}
