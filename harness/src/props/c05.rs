//! C05 -- the witness-graph evaluator computes the circuit's witness for every input.
//! Differential monitor: full 5844-element vector of calculate_rln_witness vs rln.wasm (digest
//! comparison, full vectors fetched on mismatch to locate the first differing position);
//! determinism (two evaluations) and independence of the order of the named inputs.

use crate::codec::*;
use crate::common::*;
use crate::noderef::*;
use crate::rlnx::*;
use ark_bn254::Fr;
use num_bigint::BigUint;
use rand::seq::SliceRandom;
use rand::Rng;
use rln::circuit::{calculate_rln_witness, graph_from_folder};
use serde_json::json;

/// input assignment: the 7 named vectors with arbitrary field values
#[derive(Clone)]
pub struct Assign {
    pub w: Witness,
    /// direction "bits" as arbitrary field elements (the reference rejects non-binary ones)
    pub idx: Vec<Fr>,
}

fn to_named(a: &Assign) -> Vec<(String, Vec<Fr>)> {
    let mut v = named_inputs(&a.w);
    v[4].1 = a.idx.clone();
    v
}

fn to_json(a: &Assign) -> serde_json::Value {
    let mut j = rln_inputs_json(&a.w);
    j["identityPathIndex"] = json!(a.idx.iter().map(fr_s).collect::<Vec<_>>());
    j
}

pub fn gen_cases(rng: &mut impl rand::RngCore, n_random: usize) -> Vec<(String, Assign)> {
    let mut out = vec![];
    let mut vals: Vec<(String, Fr)> = fr_boundary();
    let one = BigUint::from(1u8);
    for k in [64u32, 128, 192] {
        vals.push((format!("2^{k}"), big_to_fr(&(&one << k))));
    }
    let depth = 20;
    let base = |rng: &mut dyn rand::RngCore| -> Assign {
        let limit = LIMITS[rng.gen_range(0..LIMITS.len())];
        let id = rng.gen_range(0..limit);
        let w = Witness {
            secret: rand_fr(rng), limit: Fr::from(limit), msg_id: Fr::from(id),
            path: (0..depth).map(|_| rand_fr(rng)).collect(), bits: (0..depth).map(|_| rng.gen_range(0..2u8)).collect(),
            x: rand_fr(rng), ext: rand_fr(rng),
        };
        let idx = w.bits.iter().map(|b| Fr::from(*b as u64)).collect();
        Assign { w, idx }
    };
    // every input position individually at every boundary value
    for (vl, v) in vals.iter() {
        for pos in 0..46usize {
            let mut a = base(rng);
            let name = match pos {
                0 => { a.w.secret = *v; "identitySecret".to_string() }
                1 => { a.w.limit = *v; "userMessageLimit".to_string() }
                2 => { a.w.msg_id = *v; "messageId".to_string() }
                3..=22 => { a.w.path[pos - 3] = *v; format!("pathElements[{}]", pos - 3) }
                23..=42 => { a.idx[pos - 23] = *v; format!("identityPathIndex[{}]", pos - 23) }
                43 => { a.w.x = *v; "x".to_string() }
                44 => { a.w.ext = *v; "externalNullifier".to_string() }
                _ => {
                    // all path elements at the boundary value
                    for p in a.w.path.iter_mut() { *p = *v; }
                    "pathElements[*]".to_string()
                }
            };
            out.push((format!("{name}={vl}"), a));
        }
    }
    // ids across all power-of-two boundaries below 2^16, limits 1..2^16 and the >2^16 corner
    for k in 0..=16u32 {
        for d in [-1i64, 0, 1] {
            let id = (1i64 << k) + d;
            if id < 0 || id >= (1 << 16) {
                continue;
            }
            for limit in [id as u64 + 1, 1 << 16, (id as u64 + 1).max(1 << 15)] {
                let mut a = base(rng);
                a.w.msg_id = Fr::from(id as u64);
                a.w.limit = Fr::from(limit);
                out.push((format!("id=2^{k}{d:+}|limit-id={}", (limit as i64 - id).min(99999)), a));
            }
        }
    }
    for (limit, id) in [(65537u64, 1u64), (65537, 0), (65541, 10), (65541, 4), (65541, 5), (131071, 65535), (131072, 65535), (1 << 20, 1 << 15), (65536, 65535), (65536, 65536)] {
        let mut a = base(rng);
        a.w.limit = Fr::from(limit);
        a.w.msg_id = Fr::from(id);
        out.push((format!("limit={limit}|id={id}"), a));
    }
    // coincidences between inputs and intermediate signals: a path element equal to the node computed so far (the same
    // commitment registered at both children, or equal subtrees further up) makes the selector's difference term
    // zero; with either direction bit. Also inputs equal to each other.
    for k in [0usize, 1, 2, 10, 19] {
        for bit in [0u8, 1] {
            let mut a = base(rng);
            a.w.bits[k] = bit;
            a.idx[k] = Fr::from(bit as u64);
            let mut node = crate::rlnx::rate_commitment_ref(&a.w.secret, &a.w.limit);
            for j in 0..k {
                node = if a.w.bits[j] == 0 { crate::refhash::poseidon_ref(&[node, a.w.path[j]]) } else { crate::refhash::poseidon_ref(&[a.w.path[j], node]) };
            }
            a.w.path[k] = node;
            out.push((format!("pathElements[{k}]=node-so-far|bit={bit}"), a));
        }
    }
    {
        let mut a = base(rng);
        a.w.ext = a.w.secret;
        out.push(("externalNullifier=identitySecret".into(), a));
        let mut a = base(rng);
        a.w.x = a.w.ext;
        out.push(("x=externalNullifier".into(), a));
        let mut a = base(rng);
        a.w.path[0] = a.w.secret;
        out.push(("pathElements[0]=identitySecret".into(), a));
        let mut a = base(rng);
        let p0 = a.w.path[0];
        for p in a.w.path.iter_mut() {
            *p = p0;
        }
        out.push(("pathElements[*]=equal".into(), a));
    }
    for (pl, bits) in bit_patterns(depth, rng) {
        let mut a = base(rng);
        a.w.bits = bits.clone();
        a.idx = bits.iter().map(|b| Fr::from(*b as u64)).collect();
        out.push((format!("bits={pl}"), a));
    }
    for i in 0..n_random {
        let mut a = base(rng);
        if i % 5 == 0 {
            a.w.limit = Fr::from(rng.gen_range(1..=65536u64));
            a.w.msg_id = Fr::from(rng.gen_range(0..=65536u64));
        }
        out.push((format!("random{}", i % 16), a));
    }
    out
}

/// History leg: after a compared evaluation of `a` on this thread, a call the evaluator REFUSES (a vector of the wrong
/// length, an unknown or a missing signal name) that carries the values of a related assignment `b` (= `a` with one
/// or more inputs changed), then `b` itself, compared with the reference like every other case. What a refused call
/// leaves behind must not show in the next evaluation.
fn after_refused_call(rep: &mut Rep, node: &mut NodeRef, rng: &mut impl rand::RngCore, lab: &str, a: &Assign) {
    let mut b = a.clone();
    let which = rng.gen_range(0..5);
    match which {
        0 => b.w.ext = rand_fr(rng),
        1 => b.w.msg_id = Fr::from(rng.gen_range(0..fr_to_big(&a.w.limit).to_u64_digits().first().copied().unwrap_or(1).max(1))),
        2 => b.w.x = rand_fr(rng),
        3 => {
            b.w.ext = rand_fr(rng);
            b.w.x = rand_fr(rng);
            b.w.secret = rand_fr(rng);
        }
        _ => {
            let k = rng.gen_range(0..b.w.path.len());
            b.w.path[k] = rand_fr(rng);
        }
    }
    let mut bad = to_named(&b);
    let defect = rng.gen_range(0..5);
    let dl = match defect {
        0 => {
            bad[3].1.pop();
            "pathElements-one-short"
        }
        1 => {
            bad[3].1.push(Fr::from(7u64));
            "pathElements-one-more"
        }
        2 => {
            bad.push(("noSuchSignal".to_string(), vec![Fr::from(1u64)]));
            "unknown-signal"
        }
        3 => {
            bad[4].1.truncate(3);
            "identityPathIndex-short"
        }
        _ => {
            bad[0].1.push(Fr::from(0u64));
            "identitySecret-two-values"
        }
    };
    bad.shuffle(rng);
    let refused = catch(|| rln::circuit::try_calculate_rln_witness(bad.clone(), graph_from_folder()).is_err());
    match refused {
        Ok(true) | Err(_) => {
            rep.count("refused_calls_before_a_compared_evaluation");
            check_one(rep, node, rng, &format!("after-refused-call:{dl}:changed={which}|{lab}"), &b, false);
        }
        Ok(false) => rep.count("malformed_named_inputs_accepted_by_the_evaluator(not judged here)"),
    }
}

fn check_one(rep: &mut Rep, node: &mut NodeRef, rng: &mut impl rand::RngCore, lab: &str, a: &Assign, follow_up: bool) {
    rep.ev();
    let r = match node.query_json(to_json(a), false) {
        Ok(r) => r,
        Err(e) => {
            rep.inconclusive(format!("node: {e}"));
            return;
        }
    };
    let (head, digest) = match r {
        RefOut::Ok { head, digest, .. } => (head, digest),
        RefOut::Rejected(_) => {
            rep.count("rejected_by_reference(routed to C12)");
            rep.stratum(format!("rejected|{lab}"));
            return;
        }
    };
    rep.stratum(format!("accepted|{lab}"));
    rep.count("accepted_by_reference");
    let named = to_named(a);
    let mut shuffled = named.clone();
    shuffled.shuffle(rng);
    let got = catch(|| calculate_rln_witness(shuffled.clone(), graph_from_folder()));
    let got = match got {
        Ok(v) => v,
        Err(p) => {
            rep.violation(format!("calculate_rln_witness:panic-on-accepted-input:{}", p.file()), json!({"case": lab, "inputs": to_json(a), "panic": p.msg, "at": p.loc}));
            return;
        }
    };
    let gd = digest_frs(&got);
    if got.len() != 5844 || gd != digest {
        // locate the first differing position
        let mut pos = json!(null);
        if let Ok(RefOut::Ok { full: Some(full), .. }) = node.query_json(to_json(a), true) {
            for i in 0..full.len().max(got.len()) {
                let g = got.get(i).map(fr_to_big);
                let f = full.get(i).cloned();
                if g != f {
                    pos = json!({"index": i, "zerokit": g.map(|x| x.to_string()), "reference": f.map(|x| x.to_string())});
                    break;
                }
            }
        }
        rep.violation("witness-vector:differs-from-reference", json!({"case": lab, "inputs": to_json(a), "len": got.len(), "first_difference": pos, "ref_head": head.iter().map(|x| x.to_string()).collect::<Vec<_>>()}));
        return;
    }
    // determinism + input order independence: canonical order and another shuffle
    rep.ev();
    let again = catch(|| calculate_rln_witness(named.clone(), graph_from_folder()));
    match again {
        Ok(v2) if v2 == got => {}
        Ok(_) => rep.violation("witness-vector:depends-on-input-order-or-run", json!({"case": lab, "inputs": to_json(a), "order": shuffled.iter().map(|x| x.0.clone()).collect::<Vec<_>>()})),
        Err(p) => rep.violation(format!("calculate_rln_witness:panic:{}", p.file()), json!({"case": lab, "panic": p.msg})),
    }
    if follow_up && rng.gen_range(0..4) == 0 {
        after_refused_call(rep, node, rng, lab.split('=').next().unwrap_or("case"), a);
    }
}

pub fn run(rep: &mut Rep) {
    rep.rule = "46-element input assignments: every input position at every boundary value {0,1,2,2^64(+-1),2^128(+-1),2^192(+-1),2^253,(p+-1)/2,p-2,p-1}, ids around every power of two below 2^16, limits incl. the >2^16 corner, direction-bit patterns, random; assignments the reference generator rejects are counted and skipped; for accepted ones the SHA-256 of zerokit's 5844-vector must equal the reference's, for inputs supplied in shuffled order, and a second evaluation in canonical order must be identical; after every fourth accepted case the same thread makes a call the evaluator refuses (wrong vector length, unknown signal) carrying the values of a related assignment and then evaluates that assignment, compared the same way (a refused call must leave nothing behind). distinct_nontrivial = distinct labels of reference-accepted cases".into();
    rep.assumptions = vec!["rln.wasm under node is the reference generator; SHA-256 collision resistance for the digest comparison".into()];
    let thorough = rep.thorough();
    let mut rng = rng_for(rep.seed, "c05");
    let cases = gen_cases(&mut rng, if thorough { 100_000 } else { 2_500 });
    rep.note("cases", json!(cases.len()));
    match NodeRef::spawn() {
        Ok(n) => rep.note("reference_generator", n.hello.clone()),
        Err(e) => {
            rep.inconclusive(format!("node reference generator unavailable: {e}"));
            return;
        }
    }
    let nsh = ncpu().min(12);
    let seed = rep.seed;
    par_shards(rep, nsh, |sh, r| {
        let mut node = match NodeRef::spawn() {
            Ok(n) => n,
            Err(e) => {
                r.inconclusive(format!("node: {e}"));
                return;
            }
        };
        let mut rng = rng_for(seed, &format!("c05-shard{sh}"));
        for (i, (lab, a)) in cases.iter().enumerate() {
            if i % nsh == sh {
                check_one(r, &mut node, &mut rng, lab, a, true);
            }
        }
    });
    // sample: one accepted case with digests
    if let Ok(mut node) = NodeRef::spawn() {
        let (lab, a) = &cases[0];
        if let Ok(RefOut::Ok { head, digest, .. }) = node.query_json(to_json(a), false) {
            let got = calculate_rln_witness(to_named(a), graph_from_folder());
            rep.sample(json!({"case": lab, "reference_digest": digest, "zerokit_digest": digest_frs(&got), "witness_len": got.len(), "public_outputs": head.iter().skip(1).take(5).map(|x| x.to_string()).collect::<Vec<_>>()}));
        }
    }
}
