//! C17 -- all build configurations implement the same protocol.
//! Phases (the driver runs them in each feature build of the harness):
//!   keys    (arkzkey build): element-wise comparison of (ProvingKey, ConstraintMatrices) loaded from
//!           rln_final.zkey and rln_final.arkzkey -- a finite, exhaustive comparison
//!   emit    every build: transcript of a seeded history (root after every op, get_proof bytes at
//!           sampled positions) and k messages with their roots
//!   verify  every build: verifies the messages of every build; compares its transcript with the
//!           model's; the driver compares the transcripts of all builds byte for byte

use crate::codec::*;
use crate::common::*;
use crate::model::Model;
use crate::rlnx::*;
use crate::trees::poseidon_h;
use ark_bn254::Fr;
use rand::Rng;
use rln::public::RLN;
use serde_json::{json, Value};
use std::io::Cursor;

pub fn config_name() -> &'static str {
    if cfg!(feature = "stateless") {
        "stateless"
    } else if cfg!(feature = "arkzkey") {
        "arkzkey"
    } else if cfg!(feature = "full") {
        "full"
    } else if cfg!(feature = "pm") {
        "pm"
    } else {
        "optimal"
    }
}

fn arg(args: &[String], name: &str) -> Option<String> {
    args.iter().position(|a| a == name).and_then(|i| args.get(i + 1).cloned())
}

#[derive(Clone, Debug)]
enum HOp {
    Set(usize, Fr),
    Append(Fr),
    Delete(usize),
}

/// leaf values: mostly random, sometimes the default value, a repeated small constant or p-1
fn val(rng: &mut impl rand::RngCore) -> Fr {
    match rng.gen_range(0..8) {
        0 => Fr::from(0u64),
        1 => Fr::from(1u64),
        2 => -Fr::from(1u64),
        _ => rand_fr(rng),
    }
}

fn history(seed: u64, n: usize) -> Vec<HOp> {
    let mut rng = rng_for(seed, "c17-history");
    let mut ops = vec![];
    let mut mark;
    let pos = [0usize, 1, 2, 3, 7, 8, 255, 256, (1 << 19) - 1, 1 << 19, (1 << 20) - 2, (1 << 20) - 1];
    // a fixed prefix of corner cases every run goes through: explicit writes of the default value at never-used
    // positions (above the leaf count) followed by appends, overwrite with the same value, delete then append
    let v1 = rand_fr(&mut rng);
    let v2 = rand_fr(&mut rng);
    ops.extend([
        HOp::Set(3, Fr::from(0u64)),
        HOp::Append(v1),
        HOp::Set(6, Fr::from(0u64)),
        HOp::Append(v2),
        HOp::Set(7, v2),
        HOp::Set(7, v2),
        HOp::Append(v1),
        HOp::Delete(8),
        HOp::Append(Fr::from(0u64)),
        HOp::Append(v2),
        HOp::Set(12, Fr::from(0u64)),
        HOp::Delete(12),
        HOp::Append(v1),
        // refused operations (positions beyond the capacity) must leave every backend where it was
        HOp::Set(1 << 20, v1),
        HOp::Append(v2),
        HOp::Delete(1 << 20),
        HOp::Set(usize::MAX, v2),
        HOp::Append(v1),
        HOp::Delete((1 << 20) + 5),
    ]);
    mark = 16;
    for k in ops.len()..n.max(ops.len()) {
        let op = match rng.gen_range(0..10) {
            0..=3 => {
                let i = match k % 4 {
                    0 if k % 12 == 0 => (1usize << 20) + rng.gen_range(0..3), // refused
                    0 => rng.gen_range(0..(1usize << 20)),
                    1 => (mark + rng.gen_range(0..3)).min((1 << 20) - 1), // at / just above the leaf count
                    _ => pos[rng.gen_range(0..pos.len())],
                };
                if i < (1 << 20) {
                    mark = mark.max(i + 1);
                }
                HOp::Set(i, val(&mut rng))
            }
            4..=6 if mark < (1 << 20) => {
                mark += 1;
                HOp::Append(val(&mut rng))
            }
            _ => {
                // delete below the high-water mark only (behaviour above it is C06's subject)
                if mark == 0 {
                    mark = 1;
                    HOp::Append(rand_fr(&mut rng))
                } else {
                    HOp::Delete(if rng.gen_bool(0.5) { pos[rng.gen_range(0..pos.len())].min(mark - 1) } else { rng.gen_range(0..mark) })
                }
            }
        };
        ops.push(op);
    }
    ops
}

fn sample_positions(seed: u64) -> Vec<usize> {
    let mut rng = rng_for(seed, "c17-positions");
    let mut v = vec![0usize, 1, 255, (1 << 19) - 1, 1 << 19, (1 << 20) - 1];
    for _ in 0..4 {
        v.push(rng.gen_range(0..(1usize << 20)));
    }
    v
}

/// transcript lines from the model: the expected content for every build
fn model_transcript(seed: u64, n: usize) -> Vec<String> {
    let mut m = Model::new(20, poseidon_h, Fr::from(0u64));
    let mut lines = vec![];
    let pos = sample_positions(seed);
    for (k, op) in history(seed, n).iter().enumerate() {
        let out = match op {
            HOp::Set(i, v) => m.set(*i, *v),
            HOp::Append(v) => m.append(*v),
            HOp::Delete(i) => m.delete(*i),
        };
        // whether a refused operation is reported as an error is not part of the statement (the backends differ:
        // deleting beyond the capacity is an error for the sled backend and a silent no-op for the in-memory ones);
        // roots and paths after it are
        let _ = out;
        lines.push(format!("{k} root {}", hex(&enc_fr(&m.root()))));
        if k % 8 == 7 || k + 1 == n {
            for &p in &pos {
                let (els, bits) = m.proof(p);
                let mut b = enc_vec_fr(&els);
                b.extend(enc_vec_u8(&bits));
                lines.push(format!("{k} proof {p} {}", crate::noderef::sha256_hex(&b)));
            }
        }
    }
    lines
}

#[cfg(not(feature = "stateless"))]
fn sut_transcript(rep: &mut Rep, seed: u64, n: usize) -> Option<Vec<String>> {
    let mut r = match catch(|| RLN::new(20, Cursor::new("{}".to_string()))) {
        Ok(Ok(r)) => r,
        _ => {
            rep.inconclusive("RLN::new failed".to_string());
            return None;
        }
    };
    let pos = sample_positions(seed);
    let mut lines = vec![];
    for (k, op) in history(seed, n).iter().enumerate() {
        let res = match op {
            HOp::Set(i, v) => catch(|| r.set_leaf(*i, Cursor::new(enc_fr(v))).map_err(|e| e.to_string())),
            HOp::Append(v) => catch(|| r.set_next_leaf(Cursor::new(enc_fr(v))).map_err(|e| e.to_string())),
            HOp::Delete(i) => catch(|| r.delete_leaf(*i).map_err(|e| e.to_string())),
        };
        if !matches!(res, Ok(Ok(()))) {
            rep.count("history_operations_reported_as_failed");
            if res.is_err() {
                lines.push(format!("{k} op-panicked {:?}", op));
            }
        }
        let mut o = vec![];
        let _ = r.get_root(&mut o);
        lines.push(format!("{k} root {}", hex(&o)));
        if k % 8 == 7 || k + 1 == n {
            for &p in &pos {
                let mut b = vec![];
                let _ = catch(|| r.get_proof(p, &mut b));
                lines.push(format!("{k} proof {p} {}", crate::noderef::sha256_hex(&b)));
            }
        }
    }
    Some(lines)
}

fn new_instance() -> Result<RLN, String> {
    #[cfg(not(feature = "stateless"))]
    let r = catch(|| RLN::new(20, Cursor::new("{}".to_string())));
    #[cfg(feature = "stateless")]
    let r = catch(|| RLN::new());
    match r {
        Ok(Ok(r)) => Ok(r),
        Ok(Err(e)) => Err(e.to_string()),
        Err(p) => Err(p.msg),
    }
}

/// emit k messages: each for a member placed in a small tree (kept in the model so that the stateless
/// build can produce them from the model's path); returns JSON records
fn emit_messages(rep: &mut Rep, seed: u64, k: usize) -> Vec<Value> {
    let mut rng = rng_for(seed, "c17-messages");
    let mut out = vec![];
    let mut r = match new_instance() {
        Ok(r) => r,
        Err(e) => {
            rep.inconclusive(format!("RLN instance: {e}"));
            return out;
        }
    };
    let mut m = Model::new(20, poseidon_h, Fr::from(0u64));
    let grid = fr_boundary();
    for j in 0..k {
        let secret = if j % 2 == 0 { grid[j % grid.len()].1 } else { rand_fr(&mut rng) };
        let limit = LIMITS[j % LIMITS.len()];
        let id = ids_for(limit)[j % ids_for(limit).len()];
        let index = [0usize, 1, (1 << 19) - 1, 1 << 19, (1 << 20) - 1, 4242][j % 6];
        // every other message uses a small external nullifier (a plain epoch counter): its aliases v + p still fit in
        // 32 bytes, which the alias variants of the verify phase need
        let ext = if j % 2 == 1 { Fr::from(1_700_000_000u64 + j as u64) } else { rand_fr(&mut rng) };
        let signal = rand_bytes(&mut rng, [0usize, 1, 32, 136, 137, 1000][j % 6]);
        let rc = rate_commitment_ref(&secret, &Fr::from(limit));
        m.set(index, rc);
        // a neighbour too, so that paths are not all-default
        let nb = index ^ 1;
        let nbv = rand_fr(&mut rng);
        m.set(nb, nbv);
        let (path, bits) = m.proof(index);
        let w = Witness { secret, limit: Fr::from(limit), msg_id: Fr::from(id), path, bits, x: crate::refhash::hash_to_field_ref(&signal), ext };
        let mut msg = vec![];
        #[cfg(not(feature = "stateless"))]
        let res = {
            let _ = r.set_leaf(index, Cursor::new(enc_fr(&rc)));
            let _ = r.set_leaf(nb, Cursor::new(enc_fr(&nbv)));
            if j % 2 == 0 {
                let req = enc_prove_request(&secret, index as u64, &Fr::from(limit), &Fr::from(id), &ext, &signal);
                catch(|| r.generate_rln_proof(Cursor::new(req), &mut msg).map_err(|e| e.to_string()))
            } else {
                catch(|| r.generate_rln_proof_with_witness(Cursor::new(enc_witness(&w)), &mut msg).map_err(|e| e.to_string()))
            }
        };
        #[cfg(feature = "stateless")]
        let res = catch(|| r.generate_rln_proof_with_witness(Cursor::new(enc_witness(&w)), &mut msg).map_err(|e| e.to_string()));
        rep.ev();
        match res {
            Ok(Ok(())) => {
                out.push(json!({"producer": config_name(), "n": j, "message": hex(&msg), "signal": hex(&signal), "root": hex(&enc_fr(&m.root())),
                    "history": {"index": index, "leaf": hex(&enc_fr(&rc)), "neighbour": nb, "neighbour_leaf": hex(&enc_fr(&nbv))}}));
                if msg.len() == 288 && msg[128..160] != enc_fr(&m.root())[..] {
                    rep.violation(format!("emit:{}:carried-root-differs-from-model-root", config_name()), json!({"n": j, "index": index}));
                }
            }
            Ok(Err(e)) => rep.violation(format!("emit:{}:proving-failed", config_name()), json!({"n": j, "err": e, "index": index, "limit": limit, "id": id})),
            Err(p) => rep.violation(format!("emit:{}:proving-panicked", config_name()), json!({"n": j, "panic": p.msg})),
        }
    }
    out
}

fn verify_messages(rep: &mut Rep, dir: &str) {
    let me = config_name();
    let mut files: Vec<String> = std::fs::read_dir(dir)
        .map(|d| d.filter_map(|e| e.ok()).map(|e| e.path().to_string_lossy().to_string()).filter(|p| p.contains("messages-") && p.ends_with(".json")).collect())
        .unwrap_or_default();
    files.sort();
    if files.is_empty() {
        rep.inconclusive("no message files to verify".to_string());
        return;
    }
    let mut verdict_lines: Vec<String> = vec![];
    for f in files {
        let recs: Vec<Value> = match std::fs::read(&f).ok().and_then(|b| serde_json::from_slice(&b).ok()) {
            Some(v) => v,
            None => {
                rep.inconclusive(format!("cannot read {f}"));
                continue;
            }
        };
        // replay the producer's tree history on a fresh instance of this build, message by message
        let mut r = match new_instance() {
            Ok(r) => r,
            Err(e) => {
                rep.inconclusive(format!("RLN instance: {e}"));
                return;
            }
        };
        for rec in recs.iter() {
            let producer = rec["producer"].as_str().unwrap_or("?").to_string();
            let msg = unhex(rec["message"].as_str().unwrap());
            let signal = unhex(rec["signal"].as_str().unwrap());
            let root = unhex(rec["root"].as_str().unwrap());
            let req = enc_verify_request(&msg, &signal);
            // verdicts of this build on variants of the message (tampered, truncated, other root sets): which verdict
            // is right is C02's / C13's subject on the default build; here every build must give the SAME verdict,
            // the comparison is done by the driver on the files written below
            if msg.len() == 288 && root.len() == 32 {
                let det = |tag: &str, n: usize| -> Vec<u8> {
                    let mut out = vec![];
                    let mut k = 0u32;
                    while out.len() < n {
                        out.extend(unhex(&crate::noderef::sha256_hex(&[&msg[..], tag.as_bytes(), &k.to_le_bytes()].concat())));
                        k += 1;
                    }
                    out.truncate(n);
                    out
                };
                let mut sig_flip = signal.clone();
                if sig_flip.is_empty() {
                    sig_flip.push(1);
                } else {
                    sig_flip[0] ^= 1;
                }
                let mut msg_x = msg.clone();
                msg_x[192] ^= 1;
                let mut msg_y = msg.clone();
                msg_y[224] ^= 1;
                let mut msg_ext = msg.clone();
                msg_ext[160] ^= 1;
                let mut len_hi = msg.clone();
                len_hi.extend(enc_u64(signal.len() as u64 + (1u64 << 32)));
                len_hi.extend_from_slice(&signal);
                let other = det("other-root", 32);
                let variants: Vec<(&str, Vec<u8>, Vec<u8>)> = vec![
                    ("valid|roots=[root]", req.clone(), root.clone()),
                    ("valid|roots=[]", req.clone(), vec![]),
                    ("valid|roots=[other]", req.clone(), other.clone()),
                    ("valid|roots=[other,root]", req.clone(), [other.clone(), root.clone()].concat()),
                    ("valid|roots=[root,root]", req.clone(), [root.clone(), root.clone()].concat()),
                    ("valid|roots=[root+7 bytes]", req.clone(), [root.clone(), det("frag", 7)].concat()),
                    ("valid|roots=[other+7 bytes]", req.clone(), [other.clone(), det("frag", 7)].concat()),
                    ("valid|roots=[1 byte,root]", req.clone(), [vec![7u8], root.clone()].concat()),
                    ("valid|roots=31 bytes", req.clone(), det("short", 31)),
                    ("signal-flipped", enc_verify_request(&msg, &sig_flip), root.clone()),
                    ("x-flipped", enc_verify_request(&msg_x, &signal), root.clone()),
                    ("y-flipped", enc_verify_request(&msg_y, &signal), root.clone()),
                    ("external-nullifier-flipped", enc_verify_request(&msg_ext, &signal), root.clone()),
                    ("truncated@290", req[..290.min(req.len())].to_vec(), root.clone()),
                    ("truncated@288", req[..288].to_vec(), root.clone()),
                    ("declared-length+2^32", len_hi, root.clone()),
                    ("trailing-bytes", [req.clone(), det("tail", 5)].concat(), root.clone()),
                ];
                let mut variants = variants;
                let zero32 = vec![0u8; 32];
                variants.push(("valid|roots=[0]", req.clone(), zero32.clone()));
                variants.push(("valid|roots=[0,0,0]", req.clone(), [zero32.clone(), zero32.clone(), zero32.clone()].concat()));
                variants.push(("valid|roots=[0,other]", req.clone(), [zero32.clone(), other.clone()].concat()));
                variants.push(("valid|roots=[0,root]", req.clone(), [zero32.clone(), root.clone()].concat()));
                // alias encodings v + p of each public value (where they fit in 32 bytes), same proof and signal
                {
                    let p = num_bigint::BigUint::parse_bytes(b"21888242871839275222246405745257275088548364400416034343698204186575808495617", 10).unwrap();
                    for (k, name) in [(0usize, "alias:root+p"), (1, "alias:external_nullifier+p"), (2, "alias:x+p"), (3, "alias:y+p"), (4, "alias:nullifier+p")] {
                        let off = 128 + 32 * k;
                        let v = num_bigint::BigUint::from_bytes_le(&msg[off..off + 32]) + &p;
                        let mut b = v.to_bytes_le();
                        if b.len() <= 32 {
                            b.resize(32, 0);
                            let mut m2 = msg.clone();
                            m2[off..off + 32].copy_from_slice(&b);
                            let roots2 = if k == 0 { b.clone() } else { root.clone() };
                            variants.push((name, enc_verify_request(&m2, &signal), roots2));
                        }
                    }
                }
                let vs = |v: Result<Result<bool, String>, Panicked>| match v {
                    Ok(Ok(true)) => "true",
                    Ok(Ok(false)) => "false",
                    Ok(Err(_)) => "err",
                    Err(_) => "panic",
                };
                for (tag, rq, roots) in variants {
                    rep.ev();
                    rep.stratum(format!("verdict|{tag}"));
                    let v = catch(|| r.verify_with_roots(Cursor::new(rq.clone()), Cursor::new(roots.clone())).map_err(|e| e.to_string()));
                    verdict_lines.push(format!("{}|{}|verify_with_roots|{tag}|{}", producer, rec["n"], vs(v)));
                }
                for (tag, m2) in [("valid", msg.clone()), ("x-flipped", msg_x.clone()), ("proof-bit-flipped", { let mut m = msg.clone(); m[5] ^= 2; m }), ("truncated@287", msg[..287].to_vec()), ("trailing-byte", [msg.clone(), vec![0u8]].concat())] {
                    rep.ev();
                    rep.stratum(format!("verdict|verify|{tag}"));
                    let v = catch(|| r.verify(Cursor::new(m2.clone())).map_err(|e| e.to_string()));
                    verdict_lines.push(format!("{}|{}|verify|{tag}|{}", producer, rec["n"], vs(v)));
                }
            }
            rep.ev();
            rep.stratum(format!("verify|verifier={me}|producer={producer}|n={}", rec["n"]));
            let v = catch(|| r.verify_with_roots(Cursor::new(req.clone()), Cursor::new(root.clone())).map_err(|e| e.to_string()));
            if !matches!(v, Ok(Ok(true))) {
                rep.violation(format!("accept:verifier={me}:producer={producer}:verify_with_roots"), json!({"n": rec["n"], "result": format!("{:?}", v.map_err(|p| p.msg))}));
            }
            let v = catch(|| r.verify(Cursor::new(msg.clone())).map_err(|e| e.to_string()));
            if !matches!(v, Ok(Ok(true))) {
                rep.violation(format!("accept:verifier={me}:producer={producer}:verify"), json!({"n": rec["n"]}));
            }
            #[cfg(not(feature = "stateless"))]
            {
                let h = &rec["history"];
                let _ = r.set_leaf(h["index"].as_u64().unwrap() as usize, Cursor::new(unhex(h["leaf"].as_str().unwrap())));
                let _ = r.set_leaf(h["neighbour"].as_u64().unwrap() as usize, Cursor::new(unhex(h["neighbour_leaf"].as_str().unwrap())));
                rep.ev();
                let v = catch(|| r.verify_rln_proof(Cursor::new(req.clone())).map_err(|e| e.to_string()));
                if !matches!(v, Ok(Ok(true))) {
                    rep.violation(format!("accept:verifier={me}:producer={producer}:verify_rln_proof(replayed history)"), json!({"n": rec["n"], "result": format!("{:?}", v.map_err(|p| p.msg))}));
                }
            }
        }
    }
    let _ = std::fs::write(format!("{dir}/verdicts-{me}.txt"), verdict_lines.join("\n"));
    rep.countn("verdicts_on_message_variants", verdict_lines.len() as u64);
}

#[cfg(feature = "arkzkey")]
fn compare_keys(rep: &mut Rep) {
    use rln::circuit::zkey::read_zkey;
    use rln::circuit::{read_arkzkey_from_bytes_uncompressed, ARKZKEY_BYTES, ZKEY_BYTES};
    let a = match catch(|| read_zkey(&mut Cursor::new(ZKEY_BYTES)).map_err(|e| e.to_string())) {
        Ok(Ok(x)) => x,
        other => {
            rep.violation("keys:zkey-unreadable", json!({"result": format!("{:?}", other.map(|_| ()).map_err(|p| p.msg))}));
            return;
        }
    };
    let b = match catch(|| read_arkzkey_from_bytes_uncompressed(ARKZKEY_BYTES).map_err(|e| e.to_string())) {
        Ok(Ok(x)) => x,
        other => {
            rep.violation("keys:arkzkey-unreadable", json!({"result": format!("{:?}", other.map(|_| ()).map_err(|p| p.msg))}));
            return;
        }
    };
    let (pa, ma) = (&a.0, &a.1);
    let (pb, mb) = (&b.0, &b.1);
    let mut n = 0u64;
    let mut cmp = |rep: &mut Rep, what: &str, eq: bool, count: usize| {
        n += count as u64;
        rep.evn(count as u64);
        rep.stratum(format!("keys|{what}"));
        if !eq {
            rep.violation(format!("keys:{what}:differs"), json!({"component": what}));
        }
    };
    cmp(rep, "vk.alpha_g1", pa.vk.alpha_g1 == pb.vk.alpha_g1, 1);
    cmp(rep, "vk.beta_g2", pa.vk.beta_g2 == pb.vk.beta_g2, 1);
    cmp(rep, "vk.gamma_g2", pa.vk.gamma_g2 == pb.vk.gamma_g2, 1);
    cmp(rep, "vk.delta_g2", pa.vk.delta_g2 == pb.vk.delta_g2, 1);
    cmp(rep, "vk.gamma_abc_g1", pa.vk.gamma_abc_g1 == pb.vk.gamma_abc_g1, pa.vk.gamma_abc_g1.len());
    cmp(rep, "beta_g1", pa.beta_g1 == pb.beta_g1, 1);
    cmp(rep, "delta_g1", pa.delta_g1 == pb.delta_g1, 1);
    cmp(rep, "a_query", pa.a_query == pb.a_query, pa.a_query.len());
    cmp(rep, "b_g1_query", pa.b_g1_query == pb.b_g1_query, pa.b_g1_query.len());
    cmp(rep, "b_g2_query", pa.b_g2_query == pb.b_g2_query, pa.b_g2_query.len());
    cmp(rep, "h_query", pa.h_query == pb.h_query, pa.h_query.len());
    cmp(rep, "l_query", pa.l_query == pb.l_query, pa.l_query.len());
    cmp(rep, "num_instance_variables", ma.num_instance_variables == mb.num_instance_variables, 1);
    cmp(rep, "num_witness_variables", ma.num_witness_variables == mb.num_witness_variables, 1);
    cmp(rep, "num_constraints", ma.num_constraints == mb.num_constraints, 1);
    cmp(rep, "a_num_non_zero", ma.a_num_non_zero == mb.a_num_non_zero, 1);
    cmp(rep, "b_num_non_zero", ma.b_num_non_zero == mb.b_num_non_zero, 1);
    cmp(rep, "c_num_non_zero", ma.c_num_non_zero == mb.c_num_non_zero, 1);
    cmp(rep, "matrix_a", ma.a == mb.a, ma.a.iter().map(|r| r.len()).sum::<usize>().max(1));
    cmp(rep, "matrix_b", ma.b == mb.b, ma.b.iter().map(|r| r.len()).sum::<usize>().max(1));
    cmp(rep, "matrix_c", ma.c == mb.c, ma.c.iter().map(|r| r.len()).sum::<usize>().max(1));
    rep.note("keys_exhaustive", json!(true));
    rep.note("key_elements_compared", json!(n));
    rep.sample(json!({"zkey": {"a_query": pa.a_query.len(), "h_query": pa.h_query.len(), "l_query": pa.l_query.len(), "constraints": ma.num_constraints, "a_nonzero": ma.a_num_non_zero, "b_nonzero": ma.b_num_non_zero},
        "arkzkey": {"a_query": pb.a_query.len(), "h_query": pb.h_query.len(), "l_query": pb.l_query.len(), "constraints": mb.num_constraints}}));
}

pub fn run(rep: &mut Rep, args: &[String]) {
    rep.rule = "builds {pm, full, optimal, arkzkey, stateless}: (keys) every component of (ProvingKey, ConstraintMatrices) from rln_final.zkey vs rln_final.arkzkey, element-wise and exhaustive; (transcripts) root after every operation and get_proof bytes at sampled positions of a seeded history of single writes/appends/deletes, equal to the model's and byte-identical between builds; (messages) every build emits k messages, every build verifies all of them (verify_with_roots with the producer's root, verify, verify_rln_proof on the replayed history). distinct_nontrivial = distinct (phase, component | verifier, producer, message) keys".into();
    rep.assumptions = vec!["a configuration that does not build is a violation reported by the driver".into()];
    let phase = arg(args, "--phase").unwrap_or_else(|| "emit".into());
    let dir = arg(args, "--dir").unwrap_or_else(|| std::env::var("VH_RUN_DIR").unwrap_or_else(|_| ".".into()));
    let thorough = rep.thorough();
    let seed = rep.seed;
    let n_ops = if thorough { 400 } else { 64 };
    let k_msgs = if thorough { 24 } else { 2 };
    let me = config_name();
    match phase.as_str() {
        "keys" => {
            #[cfg(feature = "arkzkey")]
            compare_keys(rep);
            #[cfg(not(feature = "arkzkey"))]
            rep.inconclusive("keys phase needs the arkzkey build".to_string());
        }
        "emit" => {
            #[cfg(not(feature = "stateless"))]
            {
                if let Some(lines) = sut_transcript(rep, seed, n_ops) {
                    rep.evn(lines.len() as u64);
                    let want = model_transcript(seed, n_ops);
                    for (i, (a, b)) in lines.iter().zip(want.iter()).enumerate() {
                        if a != b {
                            rep.violation(format!("transcript:{me}:differs-from-model"), json!({"line": i, "build": a, "model": b}));
                            break;
                        }
                    }
                    if lines.len() != want.len() {
                        rep.violation(format!("transcript:{me}:length-differs-from-model"), json!({"build": lines.len(), "model": want.len()}));
                    }
                    rep.stratum(format!("transcript|{me}"));
                    let _ = std::fs::write(format!("{dir}/transcript-{me}.txt"), lines.join("\n"));
                    rep.sample(json!({"build": me, "transcript_lines": lines.len(), "first": lines.first(), "last": lines.last()}));
                }
            }
            let msgs = emit_messages(rep, seed, k_msgs);
            rep.stratum(format!("emit|{me}|{}", msgs.len()));
            let _ = std::fs::write(format!("{dir}/messages-{me}.json"), serde_json::to_vec(&msgs).unwrap());
        }
        "verify" => verify_messages(rep, &dir),
        _ => rep.inconclusive(format!("unknown phase {phase}")),
    }
}
