//! C11 in the stateless configuration: the exports that exist (or differ) only there -- `new`, `new_with_params`
//! without tree arguments -- and the calls reachable from a stateless context, in lockstep with the Rust API.
//! A sequence of constructor calls with different witness graphs (bundled, variant with exchanged witness signals,
//! truncated = invalid) creates pairs of contexts (one through the FFI, one through the Rust API); each pair then
//! answers the same proving / verification / recovery / key-derivation calls and must agree call by call.
#![cfg(feature = "stateless")]

use crate::codec::*;
use crate::common::*;
use crate::ffiu::{buf, read_out};
use crate::model::Model;
use crate::rlnx::*;
use crate::trees::poseidon_h;
use ark_bn254::Fr;
use rln::ffi;
use rln::public::RLN;
use serde_json::json;
use std::io::Cursor;
use std::mem::MaybeUninit;

fn ffi_bytes(ok: bool, ob: &MaybeUninit<ffi::Buffer>) -> Option<Vec<u8>> {
    if ok {
        Some(read_out(ob))
    } else {
        None
    }
}

pub fn run(rep: &mut Rep) {
    rep.rule = "stateless configuration: constructor sequences new / new_with_params(bundled graph | variant graph | invalid graph) through the FFI and the Rust API; per pair of contexts generate_rln_proof_with_witness, prove, verify, verify_with_roots (several root sets), recover_id_secret, seeded key derivation: success flags equal, value bytes equal, verdicts equal (proof bytes are randomised: cross-verified). distinct_nontrivial = distinct (constructor kind, position in the sequence, call kind, outcome)".into();
    let thorough = rep.thorough();
    let mut rng = rng_for(rep.seed, "c11s");
    let zkey: &'static [u8] = rln::circuit::ZKEY_BYTES;
    let ga: &'static [u8] = rln::circuit::graph_from_folder();
    let gb: Vec<u8> = match catch(|| -> Result<Vec<u8>, String> {
        use rln::circuit::iden3calc::storage::{deserialize_witnesscalc_graph, serialize_witnesscalc_graph};
        let (nodes, mut signals, inputs) = deserialize_witnesscalc_graph(Cursor::new(ga)).map_err(|e| e.to_string())?;
        let n = signals.len();
        signals.swap(1, n - 1);
        signals.swap(2, n / 2);
        let mut out = vec![];
        serialize_witnesscalc_graph(&mut out, &nodes, &signals, &inputs).map_err(|e| e.to_string())?;
        Ok(out)
    }) {
        Ok(Ok(b)) => b,
        _ => {
            rep.inconclusive("could not build the variant graph".to_string());
            return;
        }
    };
    let gc: Vec<u8> = ga[..ga.len() / 3].to_vec();
    // a member in a model tree: witnesses come from the model
    let mut m = Model::new(20, poseidon_h, Fr::from(0u64));
    let secret = rand_fr(&mut rng);
    m.set(7, rate_commitment_ref(&secret, &Fr::from(20u64)));
    let (path, bits) = m.proof(7);
    let root = enc_fr(&m.root());
    let ext = rand_fr(&mut rng);
    let sigs: Vec<Vec<u8>> = vec![b"first".to_vec(), b"second signal".to_vec()];
    let ws: Vec<Vec<u8>> = sigs.iter().map(|s| enc_witness(&Witness { secret, limit: Fr::from(20u64), msg_id: Fr::from(3u64), path: path.clone(), bits: bits.clone(), x: crate::refhash::hash_to_field_ref(s), ext })).collect();
    // constructor sequence
    #[derive(Clone, Copy, Debug)]
    enum K {
        New,
        A,
        B,
        C,
    }
    let mut seq = vec![K::New, K::A, K::B, K::A, K::C, K::B, K::B, K::New, K::A];
    if thorough {
        for _ in 0..24 {
            seq.push([K::New, K::A, K::B, K::C][rand::Rng::gen_range(&mut rng, 0..4)]);
        }
    }
    for (pos, k) in seq.iter().enumerate() {
        rep.ev();
        let g: Option<&[u8]> = match k {
            K::New => None,
            K::A => Some(ga),
            K::B => Some(&gb),
            K::C => Some(&gc),
        };
        let rust = catch(|| match g {
            None => RLN::new().map_err(|e| e.to_string()),
            Some(g) => RLN::new_with_params(zkey.to_vec(), g.to_vec()).map_err(|e| e.to_string()),
        });
        let mut ctx: *mut RLN = std::ptr::null_mut();
        let fok = catch(|| match g {
            None => ffi::new(&mut ctx),
            Some(g) => ffi::new_with_params(&buf(zkey), &buf(g), &mut ctx),
        });
        let rust_ok = matches!(rust, Ok(Ok(_)));
        rep.stratum(format!("stateless-new|{k:?}|pos={}|ok={rust_ok}", pos.min(9)));
        match (&rust, &fok) {
            (Err(_), _) => {
                rep.count("constructor_calls_on_which_the_rust_api_panics");
                continue;
            }
            (_, Err(p)) => {
                rep.violation(format!("stateless:new:{k:?}:ffi-panics"), json!({"position": pos, "panic": p.msg}));
                continue;
            }
            (Ok(r), Ok(f)) => {
                if r.is_ok() != *f {
                    rep.violation(format!("stateless:new:{k:?}:success-flag-differs"), json!({"position": pos, "rust_ok": r.is_ok(), "ffi": f}));
                    continue;
                }
            }
        }
        let Ok(Ok(mut r)) = rust else { continue };
        if ctx.is_null() {
            rep.violation(format!("stateless:new:{k:?}:null-context-on-success"), json!({"position": pos}));
            continue;
        }
        // the same calls on both contexts
        let mut msgs_r: Vec<Option<Vec<u8>>> = vec![];
        let mut msgs_f: Vec<Option<Vec<u8>>> = vec![];
        for (wi, wb) in ws.iter().enumerate() {
            rep.ev();
            let mut o = vec![];
            let rr = catch(|| r.generate_rln_proof_with_witness(Cursor::new(wb.clone()), &mut o).is_ok());
            if rr.is_err() {
                // a call on which the Rust API itself panics (e.g. an unparsable graph) is outside the quantifier, and a
                // panic inside an `extern "C"` export would abort the process: the FFI twin is not called
                rep.count("calls_on_which_the_rust_api_panics");
                rep.stratum(format!("stateless|generate_rln_proof_with_witness|{k:?}|rust-api-panics"));
                msgs_r.push(None);
                msgs_f.push(None);
                continue;
            }
            let mut ob = MaybeUninit::<ffi::Buffer>::uninit();
            let fr = catch(|| ffi::generate_rln_proof_with_witness(ctx, &buf(wb), ob.as_mut_ptr()));
            match (rr, fr) {
                (Ok(a), Ok(b)) => {
                    rep.stratum(format!("stateless|generate_rln_proof_with_witness|{k:?}|ok={a}"));
                    if a != b {
                        rep.violation("stateless:generate_rln_proof_with_witness:success-flag-differs".to_string(), json!({"constructor": format!("{k:?}"), "position": pos, "witness": wi, "rust": a, "ffi": b}));
                    }
                    let fm = ffi_bytes(b, &ob);
                    if a && b {
                        let fm2 = fm.clone().unwrap();
                        if o.len() != fm2.len() || (o.len() == 288 && o[128..] != fm2[128..]) {
                            rep.violation("stateless:generate_rln_proof_with_witness:values-differ".to_string(), json!({"constructor": format!("{k:?}"), "position": pos}));
                        }
                    }
                    msgs_r.push(if a { Some(o.clone()) } else { None });
                    msgs_f.push(fm);
                }
                (Err(_), _) => {
                    rep.count("calls_on_which_the_rust_api_panics");
                    msgs_r.push(None);
                    msgs_f.push(None);
                }
                (_, Err(p)) => {
                    rep.violation("stateless:generate_rln_proof_with_witness:ffi-panics".to_string(), json!({"panic": p.msg}));
                    msgs_r.push(None);
                    msgs_f.push(None);
                }
            }
        }
        // verification of both sides' messages through both interfaces: all four verdicts of a message pair agree
        for wi in 0..ws.len() {
            let (Some(mr), Some(mf)) = (&msgs_r[wi], &msgs_f[wi]) else { continue };
            for (who, msg) in [("rust-made", mr), ("ffi-made", mf)] {
                let _ = who;
                rep.ev();
                let vr = catch(|| r.verify(Cursor::new(msg.clone())).ok());
                let mut vb = MaybeUninit::<bool>::new(wi % 2 == 0);
                let okf = catch(|| ffi::verify(ctx, &buf(msg), vb.as_mut_ptr()));
                let vf = match okf {
                    Ok(true) => Some(unsafe { vb.assume_init_read() }),
                    _ => None,
                };
                if let Ok(vr) = vr {
                    if vr != vf {
                        rep.violation("stateless:verify:verdict-differs".to_string(), json!({"constructor": format!("{k:?}"), "position": pos, "rust": vr, "ffi": vf}));
                    }
                }
            }
            // the message made through the FFI must be exactly as good as the one made through the Rust API
            let a = catch(|| r.verify(Cursor::new(mr.clone())).ok());
            let b = catch(|| r.verify(Cursor::new(mf.clone())).ok());
            if let (Ok(a), Ok(b)) = (a, b) {
                rep.stratum(format!("stateless|cross-verify|{k:?}|{a:?}"));
                if a != b {
                    rep.violation("stateless:generate_rln_proof_with_witness:ffi-made-message-verifies-differently".to_string(), json!({"constructor": format!("{k:?}"), "position": pos, "rust_made": a, "ffi_made": b}));
                }
            }
            for (rl, roots) in [("[root]", root.clone()), ("[]", vec![]), ("[other]", rand_bytes(&mut rng, 32)), ("[root+frag]", [root.clone(), vec![1, 2, 3]].concat())] {
                rep.ev();
                let req = enc_verify_request(mr, &sigs[wi]);
                let vr = catch(|| r.verify_with_roots(Cursor::new(req.clone()), Cursor::new(roots.clone())).ok());
                let mut vb = MaybeUninit::<bool>::new(rl.len() % 2 == 0);
                let okf = catch(|| ffi::verify_with_roots(ctx, &buf(&req), &buf(&roots), vb.as_mut_ptr()));
                let vf = match okf {
                    Ok(true) => Some(unsafe { vb.assume_init_read() }),
                    _ => None,
                };
                if let Ok(vr) = vr {
                    rep.stratum(format!("stateless|verify_with_roots|roots={rl}|{vr:?}"));
                    if vr != vf {
                        rep.violation("stateless:verify_with_roots:verdict-differs".to_string(), json!({"constructor": format!("{k:?}"), "roots": rl, "rust": vr, "ffi": vf}));
                    }
                }
            }
        }
        if let (Some(Some(m0)), Some(Some(m1))) = (msgs_r.first(), msgs_r.get(1)) {
            rep.ev();
            let mut o = vec![];
            let rr = catch(|| r.recover_id_secret(Cursor::new(m0.clone()), Cursor::new(m1.clone()), &mut o).is_ok());
            let mut ob = MaybeUninit::<ffi::Buffer>::uninit();
            let fr = catch(|| ffi::recover_id_secret(ctx, &buf(m0), &buf(m1), ob.as_mut_ptr()));
            if let (Ok(a), Ok(b)) = (rr, fr) {
                rep.stratum(format!("stateless|recover_id_secret|ok={a}"));
                if a != b || (a && Some(o.clone()) != ffi_bytes(b, &ob)) {
                    rep.violation("stateless:recover_id_secret:differs".to_string(), json!({"rust_ok": a, "ffi_ok": b}));
                }
            }
        }
        {
            rep.ev();
            let seed = rand_bytes(&mut rng, 19);
            let mut o = vec![];
            let rr = catch(|| r.seeded_extended_key_gen(Cursor::new(seed.clone()), &mut o).is_ok());
            let mut ob = MaybeUninit::<ffi::Buffer>::uninit();
            let fr = catch(|| ffi::seeded_extended_key_gen(ctx, &buf(&seed), ob.as_mut_ptr()));
            if let (Ok(a), Ok(b)) = (rr, fr) {
                rep.stratum(format!("stateless|seeded_extended_key_gen|ok={a}"));
                if a != b || (a && Some(o.clone()) != ffi_bytes(b, &ob)) {
                    rep.violation("stateless:seeded_extended_key_gen:differs".to_string(), json!({"rust_ok": a, "ffi_ok": b}));
                }
            }
        }
        // contexts are leaked on purpose (an export that hands out the same context twice must not lead to a double free here)
        std::mem::forget(r);
    }
}
