//! C03 -- double-signalling always exposes the identity secret.
//! Relation checker over pairs of messages: same (secret, external nullifier, message id) and
//! different signals -> equal nullifiers and recover_id_secret == secret; different external
//! nullifier / message id -> different nullifiers; recovery across different external nullifiers
//! -> no secret; degenerate pairs -> error or empty result, never a crash.

use crate::codec::*;
use crate::common::*;
use crate::refhash::*;
use crate::rlnx::*;
use ark_bn254::Fr;
use rand::Rng;
use rln::protocol::*;
use rln::public::RLN;
use serde_json::json;
use std::io::Cursor;

fn mk_witness(secret: Fr, ext: Fr, id: u64, limit: u64, signal: &[u8], rng: &mut impl rand::RngCore) -> Witness {
    Witness {
        secret,
        limit: Fr::from(limit),
        msg_id: Fr::from(id),
        path: (0..20).map(|_| rand_fr(rng)).collect(),
        bits: (0..20).map(|_| rng.gen_range(0..2u8)).collect(),
        x: rln::hashers::hash_to_field(signal),
        ext,
    }
}

/// message bytes from zerokit's own functions without generating a proof (recovery skips the proof)
fn cheap_message(w: &Witness, rng: &mut impl rand::RngCore) -> Result<(Vec<u8>, RLNProofValuesLite), String> {
    let zw = to_zk_witness(w)?;
    let pv = match catch(|| proof_values_from_witness(&zw)) {
        Ok(Ok(pv)) => pv,
        Ok(Err(e)) => return Err(format!("err: {e}")),
        Err(p) => return Err(format!("panic: {}", p.msg)),
    };
    let mut m = rand_bytes(rng, 128);
    m.extend(serialize_proof_values(&pv));
    Ok((m, RLNProofValuesLite { nullifier: pv.nullifier, x: pv.x, y: pv.y }))
}

pub struct RLNProofValuesLite {
    pub nullifier: Fr,
    pub x: Fr,
    pub y: Fr,
}

enum Rec {
    Secret(Vec<u8>),
    Empty,
    Err(String),
    Panic(Panicked),
}

fn recover(r: &RLN, m1: &[u8], m2: &[u8]) -> Rec {
    match catch(|| {
        let mut out = vec![];
        r.recover_id_secret(Cursor::new(m1.to_vec()), Cursor::new(m2.to_vec()), &mut out).map(|_| out).map_err(|e| e.to_string())
    }) {
        Ok(Ok(o)) if o.is_empty() => Rec::Empty,
        Ok(Ok(o)) => Rec::Secret(o),
        Ok(Err(e)) => Rec::Err(e),
        Err(p) => Rec::Panic(p),
    }
}

pub fn run(rep: &mut Rep) {
    rep.rule = "pairs of messages built from proof_values_from_witness + serialize_proof_values behind 128 arbitrary bytes (thousands) and through generate_rln_proof (a few, also verified): secrets/external nullifiers from the boundary grid and random, message ids {0,1,limit-1,2^15,2^16-1}, signal pairs incl. empty vs non-empty, equal signals (degenerate) and forged pairs with x1 = x2; nullifiers cross-checked with the reference Poseidon. distinct_nontrivial = distinct (relation kind, secret class, nullifier class, id class, signal-pair class)".into();
    rep.assumptions = vec!["reference Poseidon (refhash)".into(), "Keccak collision resistance (different signals give different x)".into()];
    let bad = self_test();
    if !bad.is_empty() {
        rep.inconclusive(format!("reference self-test failed: {:?}", bad));
        return;
    }
    let thorough = rep.thorough();
    #[cfg(not(feature = "stateless"))]
    let inst = catch(|| RLN::new(20, Cursor::new("{}".to_string())));
    #[cfg(feature = "stateless")]
    let inst = catch(|| RLN::new());
    let mut rln = match inst {
        Ok(Ok(r)) => r,
        _ => {
            rep.inconclusive("RLN::new failed".to_string());
            return;
        }
    };
    let grid = fr_boundary();
    let mut rng = rng_for(rep.seed, "c03");
    let npairs = if thorough { 200_000 } else { 6_000 };
    let sig_pairs = |rng: &mut rand_chacha::ChaCha8Rng, k: usize| -> (String, Vec<u8>, Vec<u8>) {
        match k % 6 {
            0 => ("empty-vs-1".into(), vec![], vec![0]),
            1 => ("1-vs-1".into(), vec![1], vec![2]),
            2 => ("prefix".into(), vec![7; 10], vec![7; 11]),
            3 => ("block".into(), rand_bytes(rng, 136), rand_bytes(rng, 137)),
            4 => ("long".into(), rand_bytes(rng, 5000), rand_bytes(rng, 3)),
            _ => {
                let (a, b) = (rng.gen_range(0..64), rng.gen_range(0..64));
                ("random".into(), rand_bytes(rng, a), rand_bytes(rng, b + 64))
            }
        }
    };
    for i in 0..npairs {
        let (sl, secret) = if i % 3 == 0 { let g = &grid[(i / 3) % grid.len()]; (g.0.clone(), g.1) } else { ("random".to_string(), rand_fr(&mut rng)) };
        let (el, ext) = if i % 5 == 0 { let g = &grid[(i / 5) % grid.len()]; (g.0.clone(), g.1) } else { ("random".to_string(), rand_fr(&mut rng)) };
        let limit = LIMITS[i % LIMITS.len()];
        let ids = ids_for(limit);
        let id = ids[(i / 7) % ids.len()];
        let (pl, s1, s2) = sig_pairs(&mut rng, i);
        let w1 = mk_witness(secret, ext, id, limit, &s1, &mut rng);
        let w2 = mk_witness(secret, ext, id, limit, &s2, &mut rng);
        rep.ev();
        rep.stratum(format!("recover|s={sl}|e={el}|id={}|sig={pl}", id_class(id, limit)));
        let (m1, v1) = match cheap_message(&w1, &mut rng) {
            Ok(x) => x,
            Err(e) => {
                rep.violation("proof-values:failed-on-valid-input", json!({"error": e, "secret": fr_s(&secret), "id": id, "limit": limit}));
                continue;
            }
        };
        let (m2, v2) = match cheap_message(&w2, &mut rng) {
            Ok(x) => x,
            Err(e) => {
                rep.violation("proof-values:failed-on-valid-input", json!({"error": e}));
                continue;
            }
        };
        let want_null = poseidon_ref(&[poseidon_ref(&[secret, ext, Fr::from(id)])]);
        if v1.nullifier != v2.nullifier {
            rep.violation("nullifier:differs-for-same-(secret,ext,id)", json!({"secret": fr_s(&secret), "ext": fr_s(&ext), "id": id}));
        }
        if v1.nullifier != want_null {
            rep.violation("nullifier:not-H(H(s,e,m))", json!({"secret": fr_s(&secret), "ext": fr_s(&ext), "id": id, "got": fr_s(&v1.nullifier), "expected": fr_s(&want_null)}));
        }
        // both documented input forms (bare proof+values, or followed by signal_len | signal), independently per
        // argument; the two signals usually differ in length, so the two arguments do too
        let form = (i / 2) % 4;
        let (m1, m2) = match form {
            0 => (m1, m2),
            1 => (enc_verify_request(&m1, &s1), enc_verify_request(&m2, &s2)),
            2 => (enc_verify_request(&m1, &s1), m2),
            _ => (m1, enc_verify_request(&m2, &s2)),
        };
        rep.stratum(format!("recover-form|{}|len1{}len2", ["bare,bare", "signal,signal", "signal,bare", "bare,signal"][form], match m1.len().cmp(&m2.len()) { std::cmp::Ordering::Less => "<", std::cmp::Ordering::Equal => "==", std::cmp::Ordering::Greater => ">" }));
        match recover(&rln, &m1, &m2) {
            Rec::Secret(o) if o == fr_le32(&secret).to_vec() => {}
            Rec::Secret(o) => rep.violation("recover:wrong-secret", json!({"secret": fr_s(&secret), "ext": fr_s(&ext), "id": id, "got": hex(&o), "signals": [hex_short(&s1), hex_short(&s2)]})),
            Rec::Empty => rep.violation("recover:empty-for-double-signal", json!({"secret": fr_s(&secret), "ext": fr_s(&ext), "id": id})),
            Rec::Err(e) => rep.violation("recover:error-for-double-signal", json!({"secret": fr_s(&secret), "err": e})),
            Rec::Panic(p) => rep.violation(format!("recover:panic:{}", p.file()), json!({"secret": fr_s(&secret), "panic": p.msg, "at": p.loc})),
        }
        // order of the two messages must not matter
        if i % 4 == 0 {
            rep.ev();
            if let Rec::Secret(o) = recover(&rln, &m2, &m1) {
                if o != fr_le32(&secret).to_vec() {
                    rep.violation("recover:wrong-secret:swapped", json!({"secret": fr_s(&secret)}));
                }
            } else {
                rep.violation("recover:no-secret:swapped", json!({"secret": fr_s(&secret)}));
            }
        }
        // a different message id right after the pair above (same secret and external nullifier, nothing hashed in
        // between): the nullifier must change and the values must be those of the formulas
        if limit > 1 {
            rep.ev();
            let id2 = if id + 1 < limit { id + 1 } else { id - 1 };
            let w4 = mk_witness(secret, ext, id2, limit, &s2, &mut rng);
            if let Ok((_, v4)) = cheap_message(&w4, &mut rng) {
                if v4.nullifier == v1.nullifier {
                    rep.violation("nullifier:equal-across-message-ids", json!({"secret": fr_s(&secret), "ids": [id, id2], "note": "consecutive calls"}));
                }
                let want4 = poseidon_ref(&[poseidon_ref(&[secret, ext, Fr::from(id2)])]);
                if v4.nullifier != want4 {
                    rep.violation("nullifier:not-H(H(s,e,m))", json!({"secret": fr_s(&secret), "ext": fr_s(&ext), "id": id2, "note": "call following one with the same secret and external nullifier"}));
                }
            }
        }
        // different external nullifier / message id -> different nullifier
        if i % 2 == 0 {
            rep.ev();
            // neighbours, unrelated values, and values whose 32-byte encodings differ from the first one in a single
            // byte - every byte position in turn, the most significant one included
            let ext2 = match (i / 2) % 4 {
                0 => ext + Fr::from(1u64),
                1 => rand_fr(&mut rng),
                _ => {
                    let pos = (i / 4) % 32;
                    let mut b = fr_le32(&ext);
                    if pos == 31 {
                        b[31] = if b[31] == 0 { 1 } else { b[31] - 1 };
                    } else {
                        b[pos] ^= 1 << rng.gen_range(0..8);
                    }
                    rep.stratum(format!("cross-ext|encodings-differ-in-byte-{pos}-only"));
                    let v = num_bigint::BigUint::from_bytes_le(&b);
                    if v < p() {
                        big_to_fr(&v)
                    } else {
                        ext + Fr::from(1u64)
                    }
                }
            };
            let w3 = mk_witness(secret, ext2, id, limit, &s2, &mut rng);
            if let Ok((m3, v3)) = cheap_message(&w3, &mut rng) {
                if v3.nullifier == v1.nullifier {
                    rep.violation("nullifier:equal-across-external-nullifiers", json!({"secret": fr_s(&secret), "ext": [fr_s(&ext), fr_s(&ext2)]}));
                }
                rep.stratum(format!("cross-ext|s={sl}|e={el}"));
                match recover(&rln, &m1, &m3) {
                    Rec::Empty => {}
                    Rec::Err(_) => {} // "reports no secret"
                    Rec::Secret(o) => rep.violation("recover:secret-reported-across-external-nullifiers", json!({"got": hex(&o)})),
                    Rec::Panic(p) => rep.violation(format!("recover:panic:{}", p.file()), json!({"panic": p.msg, "at": p.loc, "kind": "cross-ext"})),
                }
            }
            if limit > 1 {
                let id2 = if id + 1 < limit { id + 1 } else { id - 1 };
                let w4 = mk_witness(secret, ext, id2, limit, &s2, &mut rng);
                if let Ok((_, v4)) = cheap_message(&w4, &mut rng) {
                    if v4.nullifier == v1.nullifier {
                        rep.violation("nullifier:equal-across-message-ids", json!({"secret": fr_s(&secret), "ids": [id, id2]}));
                    }
                }
            }
        }
        // shares at chosen evaluation points (x is a field element: 0, 1, p-1, neighbours and both integer orders),
        // first / second position swapped
        if i % 8 == 1 {
            let pts: [(Fr, Fr); 8] = [
                (Fr::from(0u64), v1.x),
                (v1.x, Fr::from(0u64)),
                (Fr::from(1u64), -Fr::from(1u64)),
                (-Fr::from(1u64), Fr::from(1u64)),
                (Fr::from(0u64), Fr::from(1u64)),
                (Fr::from(1u64), Fr::from(0u64)),
                (v1.x, v1.x + Fr::from(1u64)),
                (v2.x + Fr::from(1u64), v2.x),
            ];
            let (xa, xb) = pts[(i / 8) % 8];
            let mut wa = mk_witness(secret, ext, id, limit, &s1, &mut rng);
            let mut wb = mk_witness(secret, ext, id, limit, &s2, &mut rng);
            wa.x = xa;
            wb.x = xb;
            rep.ev();
            rep.stratum(format!("recover-chosen-x|pair{}|s={sl}", (i / 8) % 8));
            if let (Ok((ma, _)), Ok((mb, _))) = (cheap_message(&wa, &mut rng), cheap_message(&wb, &mut rng)) {
                match recover(&rln, &ma, &mb) {
                    Rec::Secret(o) if o == fr_le32(&secret).to_vec() => {}
                    Rec::Secret(o) => rep.violation("recover:wrong-secret:chosen-x", json!({"secret": fr_s(&secret), "x": [fr_s(&xa), fr_s(&xb)], "got": hex(&o)})),
                    Rec::Empty => rep.violation("recover:empty-for-double-signal:chosen-x", json!({"secret": fr_s(&secret), "x": [fr_s(&xa), fr_s(&xb)]})),
                    Rec::Err(e) => rep.violation("recover:error-for-double-signal:chosen-x", json!({"secret": fr_s(&secret), "x": [fr_s(&xa), fr_s(&xb)], "err": e})),
                    Rec::Panic(p) => rep.violation(format!("recover:panic:chosen-x:{}", p.file()), json!({"secret": fr_s(&secret), "panic": p.msg, "at": p.loc})),
                }
            } else {
                rep.violation("proof-values:failed-on-valid-input", json!({"x": [fr_s(&xa), fr_s(&xb)]}));
            }
        }
        // degenerate pairs
        if i % 16 == 0 {
            rep.ev();
            rep.stratum(format!("degenerate|identical|s={sl}"));
            match recover(&rln, &m1, &m1) {
                Rec::Empty | Rec::Err(_) => {}
                Rec::Secret(o) => rep.violation("recover:secret-from-identical-shares", json!({"got": hex(&o)})),
                Rec::Panic(p) => rep.violation(format!("recover:panic-on-identical-shares:{}", p.file()), json!({"panic": p.msg, "at": p.loc})),
            }
            // forged: x1 == x2, y1 != y2
            rep.ev();
            rep.stratum(format!("degenerate|forged-same-x|s={sl}"));
            let mut f = m1.clone();
            let y2 = enc_fr(&(v1.y + Fr::from(1u64)));
            f[128 + 96..128 + 128].copy_from_slice(&y2);
            match recover(&rln, &m1, &f) {
                Rec::Empty | Rec::Err(_) => {}
                Rec::Secret(o) => rep.violation("recover:secret-from-forged-equal-x", json!({"got": hex(&o)})),
                Rec::Panic(p) => rep.violation(format!("recover:panic-on-equal-x:{}", p.file()), json!({"panic": p.msg, "at": p.loc})),
            }
        }
        if i == 0 {
            rep.sample(json!({"secret": fr_s(&secret), "ext": fr_s(&ext), "id": id, "signals_hex": [hex(&s1), hex(&s2)], "nullifier": fr_s(&v1.nullifier), "shares": [[fr_s(&v1.x), fr_s(&v1.y)], [fr_s(&v2.x), fr_s(&v2.y)]], "recovered_equals_secret": true}));
        }
    }
    // full path: generate_rln_proof on a tree, verify, recover
    #[cfg(not(feature = "stateless"))]
    {
        let nfull = if thorough { 60 } else { 4 };
        for k in 0..nfull {
            let secret = if k % 2 == 0 { grid[(k / 2) % grid.len()].1 } else { rand_fr(&mut rng) };
            let limit = LIMITS[k % LIMITS.len()];
            let id = ids_for(limit)[k % ids_for(limit).len()];
            let ext = rand_fr(&mut rng);
            let index = [0usize, 1, (1 << 20) - 1, 524288, 12345][k % 5];
            let rc = rate_commitment_ref(&secret, &Fr::from(limit));
            if rln.set_leaf(index, Cursor::new(enc_fr(&rc))).is_err() {
                rep.inconclusive("set_leaf failed".to_string());
                continue;
            }
            let mut msgs = vec![];
            for sig in [b"hello".to_vec(), vec![], rand_bytes(&mut rng, 200)].iter().take(2 + k % 2) {
                let req = enc_prove_request(&secret, index as u64, &Fr::from(limit), &Fr::from(id), &ext, sig);
                let mut out = vec![];
                match catch(|| rln.generate_rln_proof(Cursor::new(req), &mut out).map_err(|e| e.to_string())) {
                    Ok(Ok(())) => {
                        let ok = rln.verify_rln_proof(Cursor::new(enc_verify_request(&out, sig))).unwrap_or(false);
                        if !ok {
                            rep.violation("full:generated-message-does-not-verify", json!({"index": index, "limit": limit, "id": id}));
                        }
                        msgs.push(out);
                    }
                    Ok(Err(e)) => rep.violation("full:generate_rln_proof:err", json!({"err": e, "index": index, "limit": limit, "id": id})),
                    Err(p) => rep.violation(format!("full:generate_rln_proof:panic:{}", p.file()), json!({"panic": p.msg})),
                }
            }
            if msgs.len() >= 2 {
                rep.ev();
                rep.stratum(format!("full|index={index}|limit={limit}|id={}", id_class(id, limit)));
                if msgs[0][128 + 128..] != msgs[1][128 + 128..] {
                    rep.violation("full:nullifier-differs", json!({"index": index}));
                }
                match recover(&rln, &msgs[0], &msgs[1]) {
                    Rec::Secret(o) if o == fr_le32(&secret).to_vec() => rep.count("full_pairs_recovered"),
                    Rec::Secret(o) => rep.violation("full:recover:wrong-secret", json!({"got": hex(&o), "secret": fr_s(&secret)})),
                    Rec::Empty => rep.violation("full:recover:empty", json!({"secret": fr_s(&secret)})),
                    Rec::Err(e) => rep.violation("full:recover:err", json!({"err": e})),
                    Rec::Panic(p) => rep.violation(format!("full:recover:panic:{}", p.file()), json!({"panic": p.msg})),
                }
            }
        }
    }
    let _ = &mut rln;
}
