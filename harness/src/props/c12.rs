//! C12 -- proving never returns an unverifiable proof and never crashes.
//! Outcome classifier over valid and invalid proving requests: {Ok+verifies, Ok+fails, Err, panic};
//! the second and fourth are violations. The reference generator partitions well-formed requests
//! into satisfiable / unsatisfiable; for unsatisfiable ones anything but Err is a violation.
#![cfg(not(feature = "stateless"))]

use crate::codec::*;
use crate::common::*;
use crate::noderef::*;
use crate::props::c01::{self, Ctx};
use crate::props::c02::{v_raw, v_rln, v_roots, V};
use crate::rlnx::*;
use ark_bn254::Fr;
use num_bigint::BigUint;
use rand::Rng;
use serde_json::json;
use std::io::Cursor;

#[derive(Debug, Clone, PartialEq)]
pub enum Outcome {
    OkVerifies,
    OkFails(String),
    Err,
    Panic(String, String),
}

fn classify_msg(c: &Ctx, msg: &[u8], signal: Option<&[u8]>, member: bool) -> Outcome {
    // verification of the output: raw proof check, root-set check with the carried root, and (for a
    // request about a registered member) the same tree
    if msg.len() != 288 {
        return Outcome::OkFails(format!("message length {}", msg.len()));
    }
    if v_raw(c, msg) != V::True {
        return Outcome::OkFails("verify".into());
    }
    if let Some(sig) = signal {
        let req = enc_verify_request(msg, sig);
        if v_roots(c, &req, &msg[128..160]) != V::True {
            return Outcome::OkFails("verify_with_roots[carried root]".into());
        }
        if member && v_rln(c, &req) != V::True {
            return Outcome::OkFails("verify_rln_proof".into());
        }
    }
    Outcome::OkVerifies
}

fn e1(c: &mut Ctx, req: &[u8], signal: Option<&[u8]>, member: bool) -> Outcome {
    let mut out = vec![];
    match catch(|| c.rln.generate_rln_proof(Cursor::new(req.to_vec()), &mut out).map_err(|e| e.to_string())) {
        Ok(Ok(())) => classify_msg(c, &out, signal, member),
        Ok(Err(_)) => Outcome::Err,
        Err(p) => Outcome::Panic(p.file(), p.msg),
    }
}

fn e2(c: &mut Ctx, wbytes: &[u8]) -> Outcome {
    let mut out = vec![];
    match catch(|| c.rln.generate_rln_proof_with_witness(Cursor::new(wbytes.to_vec()), &mut out).map_err(|e| e.to_string())) {
        Ok(Ok(())) => classify_msg(c, &out, None, false),
        Ok(Err(_)) => Outcome::Err,
        Err(p) => Outcome::Panic(p.file(), p.msg),
    }
}

/// E4: prove on witness bytes; the caller cannot build proof values for a malformed witness, so the
/// proof is checked against the values proof_values_from_witness gives for the decoded witness
fn e4(c: &mut Ctx, wbytes: &[u8]) -> Outcome {
    let mut out = vec![];
    match catch(|| c.rln.prove(Cursor::new(wbytes.to_vec()), &mut out).map_err(|e| e.to_string())) {
        Ok(Ok(())) => {
            let pv = catch(|| rln::protocol::deserialize_witness(wbytes).ok().and_then(|(w, _)| rln::protocol::proof_values_from_witness(&w).ok()).map(|pv| rln::protocol::serialize_proof_values(&pv)));
            match pv {
                Ok(Some(pvb)) => {
                    out.extend(pvb);
                    classify_msg(c, &out, None, false)
                }
                _ => Outcome::OkFails("prove succeeded but proof values are unavailable for this witness".into()),
            }
        }
        Ok(Err(_)) => Outcome::Err,
        Err(p) => Outcome::Panic(p.file(), p.msg),
    }
}

fn judge(rep: &mut Rep, entry: &str, kind: &str, o: &Outcome, ref_accepts: Option<bool>, detail: serde_json::Value) {
    rep.ev();
    rep.stratum(format!("{entry}|{kind}|{}", match o { Outcome::OkVerifies => "ok+verifies", Outcome::OkFails(_) => "ok+fails", Outcome::Err => "err", Outcome::Panic(..) => "panic" }));
    match o {
        Outcome::OkVerifies => {
            if ref_accepts == Some(false) {
                rep.violation(format!("{entry}:{kind}:proof-for-request-the-circuit-cannot-satisfy"), detail);
            } else {
                rep.count("ok+verifies");
            }
        }
        Outcome::OkFails(w) => rep.violation(format!("{entry}:{kind}:unverifiable-proof-returned"), json!({"failed": w, "reference_accepts": ref_accepts, "request": detail})),
        Outcome::Err => rep.count("err"),
        Outcome::Panic(f, m) => rep.violation(format!("{entry}:{kind}:panic:{f}"), json!({"panic": m, "request": detail})),
    }
}

pub fn run(rep: &mut Rep) {
    rep.rule = "proving requests through generate_rln_proof (E1), generate_rln_proof_with_witness (E2), prove (E4) and the typed route rln_witness_from_json -> protocol::generate_proof + proof_values_from_witness (E5, malformed paths only): message id = limit, limit+1, 2^16, p-1; limit 0 and > 2^16 with ids on both sides of limit-2^16; index 2^20, 2^20+1, 2^32, u64::MAX, non-member index; request bytes truncated at every length; declared signal length beyond the buffer / 2^32 / 2^63 / 2^64-1; witnesses with path length 0/19/21, mismatched counts, direction values 2/255, trailing bytes; field values of valid requests / witnesses encoded as v + k*p; random bytes; plus valid requests as controls. Outcome classes {Ok+verifies, Ok+fails, Err, panic}; rln.wasm decides satisfiability of well-formed requests. distinct_nontrivial = distinct (entry point, request kind, outcome class)".into();
    rep.assumptions = vec!["'verification accepts' = verify and verify_with_roots with the carried root (and verify_rln_proof for requests about a registered member)".into(), "Err on a request the reference accepts is not a C12 violation (completeness is C01's)".into()];
    let thorough = rep.thorough();
    let mut rng = rng_for(rep.seed, "c12");
    let mut c = match Ctx::new() {
        Ok(c) => c,
        Err(e) => {
            rep.inconclusive(e);
            return;
        }
    };
    if c.node.is_none() {
        rep.inconclusive("node reference generator unavailable: satisfiability partition not available".to_string());
    }
    let p = p();
    // a registered member
    let secret = rand_fr(&mut rng);
    let limit = 100u64;
    let index = 5usize;
    let rc = rate_commitment_ref(&secret, &Fr::from(limit));
    c.set(index, rc);
    c.set(index + 1, rand_fr(&mut rng));
    let ext = rand_fr(&mut rng);
    let signal = b"c12 signal".to_vec();
    let base = |id: &Fr, lim: &Fr, idx: u64| enc_prove_request(&secret, idx, lim, id, &ext, &signal);

    // ---- A1: id / limit combinations at the member's index. The member's leaf commits to limit=100, so a
    // request with another limit is a non-member request (root differs); membership per case below.
    let big = |s: &str| -> BigUint { s.parse().unwrap() };
    let mut combos: Vec<(String, BigUint, BigUint)> = vec![
        ("valid".into(), big("7"), big("100")),
        ("id=limit".into(), big("100"), big("100")),
        ("id=limit+1".into(), big("101"), big("100")),
        ("id=p-1".into(), &p - 1u32, big("100")),
        ("id=2^16,limit=2^16".into(), big("65536"), big("65536")),
        ("id=2^16-1,limit=2^16".into(), big("65535"), big("65536")),
        ("limit=0,id=0".into(), big("0"), big("0")),
        ("limit=0,id=1".into(), big("1"), big("0")),
        ("limit=65541,id=3".into(), big("3"), big("65541")),
        ("limit=65541,id=4".into(), big("4"), big("65541")),
        ("limit=65541,id=5".into(), big("5"), big("65541")),
        ("limit=65541,id=10".into(), big("10"), big("65541")),
        ("limit=131071,id=65535".into(), big("65535"), big("131071")),
        ("limit=131072,id=65535".into(), big("65535"), big("131072")),
        ("limit=p-1,id=0".into(), big("0"), &p - 1u32),
        ("limit=p-1,id=p-2".into(), &p - 2u32, &p - 1u32),
        ("limit=2^17,id=2^16".into(), big("65536"), big("131072")),
        ("limit=1,id=0".into(), big("0"), big("1")),
        ("limit=1,id=1".into(), big("1"), big("1")),
    ];
    if thorough {
        for _ in 0..200 {
            let l = rng.gen_range(0..140_000u64);
            let i = match rng.gen_range(0..4) {
                0 => l,
                1 => l.saturating_sub(65536),
                2 => l.saturating_sub(65537),
                _ => rng.gen_range(0..70_000u64),
            };
            combos.push((format!("rand:limit-id={}", (l as i64 - i as i64).clamp(-2, 70000)), BigUint::from(i), BigUint::from(l)));
        }
    }
    let two16 = BigUint::from(65536u32);
    for (label, id, lim) in combos.iter() {
        // request class (used in signatures): where (id, limit) lies relative to the circuit's range check
        // 0 <= id < 2^16, limit - 2^16 <= id < limit
        let kind: &str = if id >= lim {
            "id>=limit"
        } else if lim <= &two16 {
            "in-domain"
        } else if id >= &two16 || &(id + &two16) < lim {
            "limit>2^16:id-outside-circuit-window"
        } else {
            "limit>2^16:id-inside-circuit-window"
        };
        let idf = big_to_fr(id);
        let limf = big_to_fr(lim);
        let member = lim == &BigUint::from(limit);
        // satisfiability by the reference generator (with the path of the instance's tree for this index)
        let (path, bits) = c.model.proof(index);
        let w = Witness { secret, limit: limf, msg_id: idf, path, bits, x: crate::refhash::hash_to_field_ref(&signal), ext };
        let ref_acc = match c.node.as_mut().map(|n| n.query_rln(&w, false)) {
            Some(Ok(RefOut::Ok { .. })) => Some(true),
            Some(Ok(RefOut::Rejected(_))) => Some(false),
            _ => None,
        };
        let req = base(&idf, &limf, index as u64);
        let o = e1(&mut c, &req, Some(&signal), member);
        judge(rep, "E1", &format!("range:{kind}"), &o, ref_acc, json!({"case": label, "id": id.to_string(), "limit": lim.to_string(), "index": index, "reference_accepts": ref_acc}));
        // same through E2 / E4 with the harness-encoded witness
        let wb = enc_witness(&w);
        let o = e2(&mut c, &wb);
        judge(rep, "E2", &format!("range:{kind}"), &o, ref_acc, json!({"id": id.to_string(), "limit": lim.to_string(), "witness": hex_short(&wb)}));
        {
            let o = e4(&mut c, &wb);
            judge(rep, "E4", &format!("range:{kind}"), &o, ref_acc, json!({"id": id.to_string(), "limit": lim.to_string()}));
        }
    }
    // ---- A2: positions
    for (kind, idx) in [("2^20", 1u64 << 20), ("2^20+1", (1 << 20) + 1), ("2^32", 1 << 32), ("u64::MAX", u64::MAX), ("2^63", 1 << 63)] {
        let req = base(&Fr::from(7u64), &Fr::from(limit), idx);
        let o = e1(&mut c, &req, Some(&signal), false);
        judge(rep, "E1", &format!("index:{kind}"), &o, Some(false), json!({"index": idx}));
    }
    {
        // non-member index: satisfiable circuit, root differs from the tree's; carried-root verification decides
        let req = base(&Fr::from(7u64), &Fr::from(limit), 77);
        let o = e1(&mut c, &req, Some(&signal), false);
        judge(rep, "E1", "index:non-member", &o, Some(true), json!({"index": 77}));
    }
    // ---- A3: truncations and length fields of E1 requests
    let good = base(&Fr::from(7u64), &Fr::from(limit), index as u64);
    let cuts: Vec<usize> = if thorough { (0..good.len()).collect() } else { (0..good.len()).step_by(3).chain([31, 32, 33, 39, 40, 41, 135, 136, 137, good.len() - 1]).collect() };
    for cut in cuts {
        let o = e1(&mut c, &good[..cut], None, false);
        // a truncated request that still parses (cut inside the signal with a now inconsistent length) must be Err
        judge(rep, "E1", &format!("truncated@{}", if cut < 32 { "secret" } else if cut < 40 { "index" } else if cut < 136 { "fields" } else if cut < 144 { "siglen" } else { "signal" }), &o, None, json!({"cut": cut, "len": good.len()}));
    }
    for (kind, declared) in [("len+1", signal.len() as u64 + 1), ("2^32", 1u64 << 32), ("2^63", 1 << 63), ("2^64-1", u64::MAX), ("2^64-8", u64::MAX - 7), ("len-1", signal.len() as u64 - 1), ("0", 0)] {
        let mut req = good[..136].to_vec();
        req.extend(enc_u64(declared));
        req.extend_from_slice(&signal);
        // declared shorter than the buffer: a valid request for the shorter signal (trailing bytes ignored)
        let shorter = declared as usize <= signal.len();
        let sig2 = if shorter { Some(&signal[..declared as usize]) } else { None };
        let o = e1(&mut c, &req, sig2, true);
        judge(rep, "E1", &format!("declared-signal-length:{kind}"), &o, None, json!({"declared": declared, "present": signal.len()}));
    }
    // ---- A2: the tree-state request with field values in a non-canonical encoding v + k*p
    {
        let good = base(&Fr::from(7u64), &Fr::from(limit), index as u64);
        for (fname, off) in [("identity_secret", 0usize), ("user_message_limit", 40), ("message_id", 72), ("external_nullifier", 104)] {
            for k in [1u32, 2, 4] {
                let v = BigUint::from_bytes_le(&good[off..off + 32]) + &p * k;
                if v.bits() > 256 {
                    continue;
                }
                let mut r2 = good.clone();
                r2[off..off + 32].copy_from_slice(&big_to_le32(&v));
                let o = e1(&mut c, &r2, Some(&signal), true);
                judge(rep, "E1", &format!("alias:{fname}"), &o, None, json!({"field": fname, "k": k, "request": hex_short(&r2)}));
            }
        }
    }
    // ---- B: malformed witnesses through E2 / E4
    let (path, bits) = c.model.proof(index);
    let good_w = Witness { secret, limit: Fr::from(limit), msg_id: Fr::from(7u64), path: path.clone(), bits: bits.clone(), x: crate::refhash::hash_to_field_ref(&signal), ext };
    let mut ws: Vec<(String, Vec<u8>, Option<bool>)> = vec![("valid".into(), enc_witness(&good_w), Some(true))];
    for n in [0usize, 1, 19, 21, 40] {
        let mut w = good_w.clone();
        w.path = (0..n).map(|k| path.get(k).cloned().unwrap_or_else(|| Fr::from(k as u64))).collect();
        w.bits = (0..n).map(|k| bits.get(k).cloned().unwrap_or(0)).collect();
        ws.push((format!("path-length={n}"), enc_witness(&w), Some(false)));
    }
    {
        let mut w = good_w.clone();
        w.bits.pop();
        ws.push(("counts-mismatch:20-elements,19-bits".into(), enc_witness(&w), Some(false)));
        let mut w = good_w.clone();
        w.path.pop();
        ws.push(("counts-mismatch:19-elements,20-bits".into(), enc_witness(&w), Some(false)));
    }
    for (lvl, val) in [(0usize, 2u8), (7, 2), (19, 255), (3, 128)] {
        let mut w = good_w.clone();
        w.bits[lvl] = val;
        ws.push((format!("direction-value={val}@{lvl}"), enc_witness(&w), Some(false)));
    }
    {
        let mut b = enc_witness(&good_w);
        b.push(0);
        ws.push(("trailing-byte".into(), b, None));
        let b = enc_witness(&good_w);
        for cut in [0usize, 31, 32, 95, 96, 103, 104, 136, b.len() - 65, b.len() - 64, b.len() - 33, b.len() - 1] {
            ws.push((format!("truncated@{cut}"), b[..cut].to_vec(), None));
        }
        // element count field inflated
        let mut b2 = b.clone();
        b2[96..104].copy_from_slice(&enc_u64(u64::MAX));
        ws.push(("path-count=2^64-1".into(), b2, None));
        let mut b2 = b.clone();
        b2[96..104].copy_from_slice(&enc_u64(1 << 59));
        ws.push(("path-count=2^59".into(), b2, None));
        let off = 96 + 8 + 32 * 20;
        let mut b2 = b.clone();
        b2[off..off + 8].copy_from_slice(&enc_u64(u64::MAX - 7));
        ws.push(("bits-count=2^64-8".into(), b2, None));
    }
    {
        // every declared element count 0..=48 and every declared direction count 0..=48 on an otherwise
        // well-formed witness (the true counts are 20): all but 20 must be errors
        let b = enc_witness(&good_w);
        let off = 96 + 8 + 32 * 20;
        for n in 0u64..=48 {
            if n != 20 {
                let mut b2 = b.clone();
                b2[96..104].copy_from_slice(&enc_u64(n));
                ws.push((format!("path-count-sweep@{n}"), b2, None));
                let mut b2 = b.clone();
                b2[off..off + 8].copy_from_slice(&enc_u64(n));
                ws.push((format!("bits-count-sweep@{n}"), b2, None));
            }
        }
        // counts around the number of elements / bytes that would fit in the remaining buffer
        let rem_el = ((b.len() - 104) / 32) as u64;
        let rem_by = (b.len() - off - 8) as u64;
        for d in [-2i64, -1, 0, 1, 2] {
            let mut b2 = b.clone();
            b2[96..104].copy_from_slice(&enc_u64((rem_el as i64 + d) as u64));
            ws.push((format!("path-count-near-buffer-end@{d}"), b2, None));
            let mut b2 = b.clone();
            b2[off..off + 8].copy_from_slice(&enc_u64((rem_by as i64 + d) as u64));
            ws.push((format!("bits-count-near-buffer-end@{d}"), b2, None));
        }
    }
    {
        // field values of a valid witness in a non-canonical encoding v + k*p (still 32 bytes): the prover may refuse
        // them or prove for v - but then the message it returns has to be one verification accepts
        let b = enc_witness(&good_w);
        let n = b.len();
        let fields: Vec<(String, usize)> = vec![
            ("identity_secret".into(), 0), ("user_message_limit".into(), 32), ("message_id".into(), 64),
            ("path_element[0]".into(), 104), ("path_element[19]".into(), 104 + 32 * 19), ("x".into(), n - 64), ("external_nullifier".into(), n - 32),
        ];
        for (fname, off) in fields.iter() {
            for k in [1u32, 2, 4] {
                let v = BigUint::from_bytes_le(&b[*off..*off + 32]) + &p * k;
                if v.bits() > 256 {
                    continue;
                }
                let mut b2 = b.clone();
                b2[*off..*off + 32].copy_from_slice(&big_to_le32(&v));
                ws.push((format!("alias:{fname}@+{k}p"), b2, None));
            }
        }
    }
    for k in 0..(if thorough { 300 } else { 30 }) {
        let len = [0usize, 10, 96, 104, 200, 840, 1000][k % 7];
        ws.push(("random-bytes".into(), rand_bytes(&mut rng, len), None));
    }
    for (kind, wb, ref_acc) in ws.iter() {
        let o = e2(&mut c, wb);
        judge(rep, "E2", &format!("witness:{}", kind.split('@').next().unwrap()), &o, *ref_acc, json!({"kind": kind, "witness": hex_short(wb)}));
        let o = e4(&mut c, wb);
        judge(rep, "E4", &format!("witness:{}", kind.split('@').next().unwrap()), &o, *ref_acc, json!({"kind": kind, "witness": hex_short(wb)}));
    }
    // ---- B2: the same malformed paths arriving as a typed witness (JSON route) at protocol::generate_proof +
    // proof_values_from_witness, i.e. without passing the byte decoder. The JSON form is built here from its
    // definition (every field the byte array of its compressed encoding, the direction values a plain array).
    {
        let bytes_json = |b: &[u8]| serde_json::Value::Array(b.iter().map(|x| json!(*x)).collect());
        let wjson = |w: &Witness| {
            json!({
                "identity_secret": bytes_json(&enc_fr(&w.secret)),
                "user_message_limit": bytes_json(&enc_fr(&w.limit)),
                "message_id": bytes_json(&enc_fr(&w.msg_id)),
                "path_elements": bytes_json(&enc_vec_fr(&w.path)),
                "identity_path_index": w.bits.iter().map(|x| json!(*x)).collect::<Vec<_>>(),
                "x": bytes_json(&enc_fr(&w.x)),
                "external_nullifier": bytes_json(&enc_fr(&w.ext)),
            })
        };
        let mut variants: Vec<(String, Witness, Option<bool>)> = vec![("valid".into(), good_w.clone(), Some(true))];
        for (lvl, val) in [(0usize, 2u8), (5, 2), (19, 255), (3, 128)] {
            let mut w = good_w.clone();
            w.bits[lvl] = val;
            variants.push((format!("direction-value={val}"), w, Some(false)));
        }
        for (ne, nb) in [(20usize, 21usize), (20, 25), (20, 19), (19, 20), (21, 20), (0, 20), (20, 0)] {
            let mut w = good_w.clone();
            w.path = (0..ne).map(|k| path.get(k).cloned().unwrap_or_else(|| Fr::from(k as u64))).collect();
            w.bits = (0..nb).map(|k| bits.get(k).cloned().unwrap_or(1)).collect();
            variants.push((format!("counts-mismatch:{ne}-elements,{nb}-bits"), w, Some(false)));
        }
        for n in [0usize, 1, 19, 21, 40] {
            let mut w = good_w.clone();
            w.path = (0..n).map(|k| path.get(k).cloned().unwrap_or_else(|| Fr::from(k as u64))).collect();
            w.bits = (0..n).map(|k| bits.get(k).cloned().unwrap_or(0)).collect();
            variants.push((format!("path-length={n}"), w, Some(false)));
        }
        let mut control_ok = false;
        for (kind, w, ref_acc) in variants {
            let j = wjson(&w);
            // decoding the JSON value is the codec's business (C10); a value the decoder refuses is not a request
            let typed = match catch(|| rln::protocol::rln_witness_from_json(j.clone()).map_err(|e| e.to_string())) {
                Ok(Ok(t)) => t,
                _ => {
                    rep.count("json_witness_refused_by_the_json_decoder");
                    continue;
                }
            };
            let o = match catch(|| -> Result<Vec<u8>, String> {
                let proof = rln::protocol::generate_proof(rln::circuit::zkey_from_folder(), &typed, rln::circuit::graph_from_folder()).map_err(|e| e.to_string())?;
                let pv = rln::protocol::proof_values_from_witness(&typed).map_err(|e| e.to_string())?;
                let mut out = vec![];
                ark_serialize::CanonicalSerialize::serialize_compressed(&proof, &mut out).map_err(|e| e.to_string())?;
                out.extend(rln::protocol::serialize_proof_values(&pv));
                Ok(out)
            }) {
                Ok(Ok(msg)) => classify_msg(&c, &msg, None, false),
                Ok(Err(_)) => Outcome::Err,
                Err(p) => Outcome::Panic(p.file(), p.msg),
            };
            if kind == "valid" && o == Outcome::OkVerifies {
                control_ok = true;
            }
            judge(rep, "E5", &format!("json-witness:{kind}"), &o, ref_acc, json!({"kind": kind}));
            // the values alone (what a caller computes before proving)
            rep.ev();
            if let Err(p) = catch(|| rln::protocol::proof_values_from_witness(&typed).map(|_| ()).map_err(|e| e.to_string())) {
                rep.violation(format!("E5:json-witness:{kind}:values:panic:{}", p.file()), json!({"panic": p.msg, "at": p.loc}));
            }
        }
        if !control_ok {
            rep.inconclusive("E5 control failed: the JSON form of a valid witness did not yield a verifying proof".to_string());
        }
    }
    // random request bytes through E1
    for k in 0..(if thorough { 300 } else { 40 }) {
        let len = [0usize, 8, 40, 136, 143, 144, 160, 500][k % 8];
        let b = rand_bytes(&mut rng, len);
        let o = e1(&mut c, &b, None, false);
        judge(rep, "E1", "random-bytes", &o, None, json!({"request": hex_short(&b)}));
    }
    // the instance is still usable afterwards: a valid request proves and verifies
    let o = e1(&mut c, &good, Some(&signal), true);
    judge(rep, "E1", "valid-after-hostile-requests", &o, Some(true), json!({}));
    if o != Outcome::OkVerifies {
        rep.violation("E1:valid-request-fails-after-hostile-requests", json!({"outcome": format!("{:?}", o)}));
    }
    rep.sample(json!({"request_kind": "id=limit", "request_hex": hex_short(&base(&Fr::from(100u64), &Fr::from(100u64), index as u64)), "expected": "Err (the reference generator rejects: RangeCheck)"}));
    let _ = c01::index_classes();
}
