//! C04 -- published proof values equal the RLN formulas and the circuit's outputs.
//! Four-way comparison per witness: (i) independent formulas over the reference Poseidon,
//! (ii) proof_values_from_witness, (iii) calculate_rln_witness()[1..6], (iv) rln.wasm outputs;
//! plus bytes 128..288 of generated messages for a sample.

use crate::codec::*;
use crate::common::*;
use crate::noderef::*;
use crate::rlnx::*;
use ark_bn254::Fr;
use rand::Rng;
use rln::circuit::{calculate_rln_witness, graph_from_folder};
use rln::protocol::*;
use serde_json::json;

fn pv_eq(a: &ProofValues, y: &Fr, root: &Fr, nul: &Fr, x: &Fr, e: &Fr) -> bool {
    a.y == *y && a.root == *root && a.nullifier == *nul && a.x == *x && a.ext == *e
}

pub fn check_one(rep: &mut Rep, node: &mut Option<NodeRef>, lab: &str, w: &Witness) {
    rep.ev();
    rep.stratum(lab.to_string());
    let want = ref_values(w);
    // reference generator: is the witness accepted by the circuit at all?
    let mut ref_head: Option<Vec<num_bigint::BigUint>> = None;
    if let Some(n) = node.as_mut() {
        match n.query_rln(w, false) {
            Ok(RefOut::Ok { head, .. }) => ref_head = Some(head),
            Ok(RefOut::Rejected(_)) => {
                rep.count("rejected_by_reference_skipped");
                return;
            }
            Err(e) => {
                rep.inconclusive(format!("node: {e}"));
                *node = None;
            }
        }
    }
    if let Some(h) = &ref_head {
        let f = |i: usize| big_to_fr(&h[i]);
        if !pv_eq(&want, &f(1), &f(2), &f(3), &f(4), &f(5)) {
            // the two independent oracles disagree: the machinery is wrong, not zerokit
            rep.inconclusive("independent formulas disagree with rln.wasm outputs".to_string());
            return;
        }
        rep.count("reference_generator_confirmed");
    }
    let zw = match to_zk_witness(w) {
        Ok(z) => z,
        Err(e) => {
            rep.violation("witness-rejected-by-decoder", json!({"case": lab, "error": e}));
            return;
        }
    };
    match catch(|| proof_values_from_witness(&zw)) {
        Ok(Ok(pv)) => {
            if !pv_eq(&want, &pv.y, &pv.root, &pv.nullifier, &pv.x, &pv.external_nullifier) {
                let which = if pv.y != want.y { "y" } else if pv.root != want.root { "root" } else if pv.nullifier != want.nullifier { "nullifier" } else if pv.x != want.x { "x" } else { "external_nullifier" };
                rep.violation(format!("proof_values_from_witness:mismatch:{which}"), json!({"case": lab, "witness": hex_short(&enc_witness(w)),
                    "expected": {"y": fr_s(&want.y), "root": fr_s(&want.root), "nullifier": fr_s(&want.nullifier)},
                    "got": {"y": fr_s(&pv.y), "root": fr_s(&pv.root), "nullifier": fr_s(&pv.nullifier), "x": fr_s(&pv.x), "e": fr_s(&pv.external_nullifier)}}));
            }
        }
        Ok(Err(e)) => rep.violation("proof_values_from_witness:err-on-accepted-witness", json!({"case": lab, "err": e.to_string()})),
        Err(p) => rep.violation(format!("proof_values_from_witness:panic:{}", p.file()), json!({"case": lab, "panic": p.msg})),
    }
    rep.ev();
    match catch(|| calculate_rln_witness(named_inputs(w), graph_from_folder())) {
        Ok(v) => {
            if v.len() < 6 || !pv_eq(&want, &v[1], &v[2], &v[3], &v[4], &v[5]) {
                rep.violation("graph-witness-public-outputs:mismatch", json!({"case": lab, "witness": hex_short(&enc_witness(w)),
                    "got": v.iter().take(6).map(fr_s).collect::<Vec<_>>(),
                    "expected": [fr_s(&want.y), fr_s(&want.root), fr_s(&want.nullifier), fr_s(&want.x), fr_s(&want.ext)]}));
            }
        }
        Err(p) => rep.violation(format!("calculate_rln_witness:panic:{}", p.file()), json!({"case": lab, "panic": p.msg})),
    }
}

pub fn gen_cases(rng: &mut impl rand::RngCore, n_random: usize) -> Vec<(String, Witness)> {
    let grid = fr_boundary();
    let mut out = vec![];
    let depth = 20;
    let pats = bit_patterns(depth, rng);
    // direction-bit patterns x path element kinds
    for (pl, bits) in pats.iter() {
        for pe in ["zero", "pm1", "random", "running"] {
            let secret = rand_fr(rng);
            let limit = LIMITS[rng.gen_range(0..LIMITS.len())];
            let id = rng.gen_range(0..limit);
            let mut w = Witness { secret, limit: Fr::from(limit), msg_id: Fr::from(id), path: vec![], bits: bits.clone(), x: rand_fr(rng), ext: rand_fr(rng) };
            let mut node = rate_commitment_ref(&secret, &w.limit);
            for k in 0..depth {
                let el = match pe {
                    "zero" => Fr::from(0u64),
                    "pm1" => -Fr::from(1u64),
                    "running" => node,
                    _ => rand_fr(rng),
                };
                w.path.push(el);
                node = if bits[k] == 0 { crate::refhash::poseidon_ref(&[node, el]) } else { crate::refhash::poseidon_ref(&[el, node]) };
            }
            out.push((format!("bits={pl}|path={pe}"), w));
        }
    }
    // boundary field values in each scalar input, limit/id classes
    for (gl, g) in grid.iter() {
        for which in ["secret", "ext", "x", "path0", "path19"] {
            for &limit in LIMITS.iter() {
                let ids = ids_for(limit);
                let id = ids[rng.gen_range(0..ids.len())];
                let mut w = Witness {
                    secret: rand_fr(rng), limit: Fr::from(limit), msg_id: Fr::from(id),
                    path: (0..depth).map(|_| rand_fr(rng)).collect(), bits: (0..depth).map(|_| rng.gen_range(0..2u8)).collect(),
                    x: rand_fr(rng), ext: rand_fr(rng),
                };
                match which {
                    "secret" => w.secret = *g,
                    "ext" => w.ext = *g,
                    "x" => w.x = *g,
                    "path0" => w.path[0] = *g,
                    _ => w.path[19] = *g,
                }
                out.push((format!("{which}={gl}|limit={limit}|id={}", id_class(id, limit)), w));
            }
        }
    }
    // all ids classes for every limit
    for &limit in LIMITS.iter() {
        for id in ids_for(limit) {
            let w = Witness {
                secret: rand_fr(rng), limit: Fr::from(limit), msg_id: Fr::from(id),
                path: (0..depth).map(|_| rand_fr(rng)).collect(), bits: (0..depth).map(|_| rng.gen_range(0..2u8)).collect(),
                x: rand_fr(rng), ext: rand_fr(rng),
            };
            out.push((format!("limit={limit}|id={id}"), w));
        }
    }
    for i in 0..n_random {
        let limit = if i % 3 == 0 { rng.gen_range(1..=65536u64) } else { LIMITS[i % LIMITS.len()] };
        let id = rng.gen_range(0..limit);
        let w = Witness {
            secret: rand_fr(rng), limit: Fr::from(limit), msg_id: Fr::from(id),
            path: (0..depth).map(|_| rand_fr(rng)).collect(), bits: (0..depth).map(|_| rng.gen_range(0..2u8)).collect(),
            x: rand_fr(rng), ext: rand_fr(rng),
        };
        out.push((format!("random|limitclass={}|id={}", limit.leading_zeros(), id_class(id, limit)), w));
    }
    out
}

pub fn run(rep: &mut Rep) {
    rep.rule = "witnesses with boundary field values in every scalar input, all limit/id classes, direction-bit patterns (all-0, all-1, alternating, one-hot and complement at each of 20 levels, random) x path-element kinds (0, p-1, random, equal to the running node), plus random witnesses; each accepted by rln.wasm; (y, root, nullifier, x, e) compared four ways. distinct_nontrivial = distinct case labels".into();
    rep.assumptions = vec![
        "rln.wasm (bundled, circom 2.1.0) under node is the circuit's reference witness generator".into(),
        "reference Poseidon (refhash) anchored on circomlib vectors".into(),
    ];
    let bad = crate::refhash::self_test();
    if !bad.is_empty() {
        rep.inconclusive(format!("reference self-test failed: {:?}", bad));
        return;
    }
    let thorough = rep.thorough();
    let mut rng = rng_for(rep.seed, "c04");
    let cases = gen_cases(&mut rng, if thorough { 60_000 } else { 1_500 });
    rep.note("cases", json!(cases.len()));
    let nsh = ncpu().min(12);
    let node_ok = NodeRef::spawn();
    match &node_ok {
        Ok(n) => rep.note("reference_generator", n.hello.clone()),
        Err(e) => {
            rep.inconclusive(format!("node reference generator unavailable: {e}"));
        }
    }
    drop(node_ok);
    par_shards(rep, nsh, |sh, r| {
        let mut node = NodeRef::spawn().ok();
        for (i, (lab, w)) in cases.iter().enumerate() {
            if i % nsh == sh {
                check_one(r, &mut node, lab, w);
            }
        }
    });
    // history (in)dependence: the published values are a function of the witness alone. Consecutive calls on
    // one thread that share some inputs (same secret and external nullifier with different message ids, same id
    // with different nullifiers, same everything with different x / path) must each give the formulas' values,
    // in every order.
    {
        let mut rng = rng_for(rep.seed, "c04-seq");
        let mut node = NodeRef::spawn().ok();
        let nseq = if thorough { 400 } else { 40 };
        for q in 0..nseq {
            let base = &cases[(q * 37) % cases.len()].1;
            let mut seq: Vec<(String, Witness)> = vec![("base".into(), base.clone())];
            let limit_u = fr_to_big(&base.limit);
            let id_u = fr_to_big(&base.msg_id);
            // other message ids valid for the same limit
            for d in [1u32, 2] {
                let nid = (&id_u + d) % &limit_u;
                if nid != id_u {
                    let mut w = base.clone();
                    w.msg_id = big_to_fr(&nid);
                    seq.push((format!("same-s,e|id+{d}"), w));
                }
            }
            let mut w = base.clone();
            w.ext = base.ext + Fr::from(1u64);
            seq.push(("same-s,id|e+1".into(), w));
            let mut w = base.clone();
            w.x = rand_fr(&mut rng);
            seq.push(("same-s,e,id|other-x".into(), w));
            let mut w = base.clone();
            w.path[rng.gen_range(0..20)] = rand_fr(&mut rng);
            seq.push(("same-s,e,id|other-path".into(), w));
            let mut w = base.clone();
            w.secret = base.secret + Fr::from(1u64);
            seq.push(("same-e,id|s+1".into(), w));
            // every remaining input changed alone as well: the limit (same secret: another rate commitment) and one
            // direction bit
            let mut w = base.clone();
            w.limit = base.limit + Fr::from(1u64);
            seq.push(("same-s,e,id|limit+1".into(), w));
            let mut w = base.clone();
            w.limit = base.limit + base.limit;
            seq.push(("same-s,e,id|limit*2".into(), w));
            let mut w = base.clone();
            let k = rng.gen_range(0..20);
            w.bits[k] ^= 1;
            seq.push(("same-s,e,id|other-direction-bit".into(), w));
            seq.push(("base-again".into(), base.clone()));
            if q % 2 == 1 {
                seq.reverse();
            }
            for (l, w) in seq.iter() {
                check_one(rep, &mut node, &format!("sequence|{l}"), w);
            }
        }
    }
    // message-bytes leg: bytes 128..288 of generated messages
    let nmsg = if thorough { 120 } else { 12 };
    #[cfg(not(feature = "stateless"))]
    let inst = catch(|| rln::public::RLN::new(20, std::io::Cursor::new("{}".to_string())));
    #[cfg(feature = "stateless")]
    let inst = catch(|| rln::public::RLN::new());
    if let Ok(Ok(mut r)) = inst {
        let step = (cases.len() / nmsg).max(1);
        for (lab, w) in cases.iter().step_by(step).take(nmsg) {
            rep.ev();
            let mut out = vec![];
            match catch(|| r.generate_rln_proof_with_witness(std::io::Cursor::new(enc_witness(w)), &mut out).map_err(|e| e.to_string())) {
                Ok(Ok(())) => {
                    let want = enc_proof_values(&ref_values(w));
                    if out.len() != 288 || out[128..] != want[..] {
                        rep.violation("message-bytes-128..288:mismatch", json!({"case": lab, "got": hex(&out[128.min(out.len())..]), "expected": hex(&want)}));
                    }
                    rep.count("message_bytes_checked");
                }
                Ok(Err(e)) => rep.violation("generate_rln_proof_with_witness:err-on-accepted-witness", json!({"case": lab, "err": e})),
                Err(p) => rep.violation(format!("generate_rln_proof_with_witness:panic:{}", p.file()), json!({"case": lab, "panic": p.msg})),
            }
        }
        rep.stratum("message-bytes-leg");
    } else {
        rep.inconclusive("RLN instance could not be created for the message-bytes leg".to_string());
    }
    // stateful leg: bytes 128..288 written by generate_rln_proof must be the formulas applied to the witness the
    // tree yields for that index (secret, limit, path of the index) -- also when the leaf at the index is not the
    // member's commitment (other limit, empty / overwritten / deleted leaf): the circuit folds the path, it does
    // not read the tree's root
    #[cfg(not(feature = "stateless"))]
    {
        use crate::model::Model;
        use std::io::Cursor;
        let mut rng = rng_for(rep.seed, "c04-stateful");
        if let Ok(Ok(mut r)) = catch(|| rln::public::RLN::new(20, Cursor::new("{}".to_string()))) {
            let mut m = Model::new(20, crate::trees::poseidon_h, Fr::from(0u64));
            let secret = rand_fr(&mut rng);
            let rc = rate_commitment_ref(&secret, &Fr::from(100u64));
            for (i, v) in [(0usize, rand_fr(&mut rng)), (1, rc), (2, rand_fr(&mut rng)), (5, rand_fr(&mut rng)), ((1 << 20) - 1, rand_fr(&mut rng))] {
                let _ = r.set_leaf(i, Cursor::new(enc_fr(&v)));
                m.set(i, v);
            }
            let _ = r.delete_leaf(2);
            m.delete(2);
            let trials: Vec<(&str, usize, u64, u64)> = vec![
                ("member", 1, 100, 7),
                ("member-other-limit", 1, 50, 7),
                ("member-limit-2^16", 1, 65536, 65535),
                ("other-occupied-index", 0, 100, 7),
                ("deleted-index", 2, 100, 1),
                ("never-set-index", 3, 100, 0),
                ("last-index", (1 << 20) - 1, 100, 99),
                ("far-empty-index", 1 << 19, 100, 3),
            ];
            let n = if thorough { trials.len() } else { 5 };
            for (lab, idx, limit, id) in trials.into_iter().take(n) {
                rep.ev();
                rep.stratum(format!("stateful-message-bytes|{lab}"));
                let sig = rand_bytes(&mut rng, 12);
                let ext = rand_fr(&mut rng);
                let req = enc_prove_request(&secret, idx as u64, &Fr::from(limit), &Fr::from(id), &ext, &sig);
                let (path, bits) = m.proof(idx);
                let w = Witness { secret, limit: Fr::from(limit), msg_id: Fr::from(id), path, bits, x: crate::refhash::hash_to_field_ref(&sig), ext };
                let want = enc_proof_values(&ref_values(&w));
                let mut out = vec![];
                match catch(|| r.generate_rln_proof(Cursor::new(req), &mut out).map_err(|e| e.to_string())) {
                    Ok(Ok(())) => {
                        if out.len() != 288 || out[128..] != want[..] {
                            let which = (0..5).find(|f| out.len() == 288 && out[128 + 32 * f..160 + 32 * f] != want[32 * f..32 * f + 32]).map(|f| ["root", "external_nullifier", "x", "y", "nullifier"][f]).unwrap_or("length");
                            rep.violation(format!("generate_rln_proof:message-bytes-128..288:mismatch:{which}"), json!({"case": lab, "index": idx, "limit": limit, "got": hex(&out[128.min(out.len())..]), "expected": hex(&want)}));
                        }
                        rep.count("stateful_message_bytes_checked");
                    }
                    // refusing a request for a position that does not hold the member's commitment is fine for C04
                    Ok(Err(_)) => rep.count("stateful_request_refused"),
                    Err(p) => rep.violation(format!("generate_rln_proof:panic:{}", p.file()), json!({"case": lab, "panic": p.msg})),
                }
            }
        }
    }
    if let Some((lab, w)) = cases.first() {
        let v = ref_values(w);
        rep.sample(json!({"case": lab, "witness_hex": hex_short(&enc_witness(w)), "y": fr_s(&v.y), "root": fr_s(&v.root), "nullifier": fr_s(&v.nullifier)}));
    }
}
