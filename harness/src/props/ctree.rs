//! Runner shared by C06 (state), C07 (proofs), C08 (batch), C15 (empty positions): drives every
//! tree backend (trait level) and the RLN-level tree API of the current build with generated
//! histories against the ideal model.

#![allow(unused_imports)]
use crate::common::*;
use crate::trees::*;
use ark_bn254::Fr;
use rln::hashers::PoseidonHash;
use serde_json::json;
use zerokit_utils::merkle_tree::{FullMerkleTree, OptimalMerkleTree, ZerokitMerkleTree};

fn alpha_for(focus: Focus) -> Alphabet {
    match focus {
        Focus::State => Alphabet::Plain,
        Focus::Batch => Alphabet::Batch,
        Focus::Empties | Focus::Proofs => Alphabet::All,
    }
}

#[cfg(any(feature = "pm", feature = "full"))]
mod pm {
    use super::*;
    use rln::pm_tree_adapter::{PmTree, PmtreeConfig};
    use std::cell::RefCell;
    use std::rc::Rc;
    use std::str::FromStr;

    pub fn pm_temp(depth: usize, variant: usize) -> Result<TraitSut<PmTree>, String> {
        // the default configuration has a 150 kB page cache (very slow at depth 20); most units use a
        // temporary tree with a larger cache, every fourth one (depth <= 12) the default configuration
        if variant % 4 == 3 && depth <= 12 {
            TraitSut::new("pm", depth, Box::new(|d| PmTree::default(d).map_err(|e| e.to_string())))
        } else {
            TraitSut::new(
                "pm",
                depth,
                Box::new(|d| {
                    let cfg = PmtreeConfig::from_str(r#"{"temporary": true, "cache_capacity": 50000000}"#).map_err(|e| e.to_string())?;
                    PmTree::new(d, Fr::from(0u64), cfg).map_err(|e| e.to_string())
                }),
            )
        }
    }

    pub fn cfg_json(path: &str, variant: usize) -> String {
        match variant % 4 {
            0 => format!(r#"{{"path": "{path}", "temporary": false, "cache_capacity": 150000, "flush_every_ms": 12000, "mode": "HighThroughput", "use_compression": false}}"#),
            1 => format!(r#"{{"path": "{path}", "temporary": false, "cache_capacity": 1024, "flush_every_ms": 1, "mode": "LowSpace"}}"#),
            2 => format!(r#"{{"path": "{path}", "temporary": false}}"#),
            _ => format!(r#"{{"path": "{path}", "temporary": false, "cache_capacity": 1073741824, "flush_every_ms": 50, "mode": "SomethingElse"}}"#),
        }
    }

    /// persistent PmTree under TMPDIR; Reset creates a new location, Reopen flushes, drops and reopens
    pub fn pm_persistent(depth: usize, tag: &str, variant: usize) -> Result<TraitSut<PmTree>, String> {
        let base = std::env::temp_dir().join(format!("pmp-{}-{}", std::process::id(), tag));
        let counter = Rc::new(RefCell::new(0usize));
        let cur = Rc::new(RefCell::new(String::new()));
        let (c2, cur2, base2) = (counter.clone(), cur.clone(), base.clone());
        let mk = move |d: usize| -> Result<PmTree, String> {
            *c2.borrow_mut() += 1;
            // remove the previous location of this SUT to bound disk usage
            let old = cur2.borrow().clone();
            if !old.is_empty() {
                let _ = std::fs::remove_dir_all(&old);
            }
            let path = format!("{}-{}", base2.display(), c2.borrow());
            *cur2.borrow_mut() = path.clone();
            let cfg = PmtreeConfig::from_str(&cfg_json(&path, variant)).map_err(|e| e.to_string())?;
            PmTree::new(d, Fr::from(0u64), cfg).map_err(|e| e.to_string())
        };
        let mut s = TraitSut::new("pm-persistent", depth, Box::new(mk))?;
        let cur3 = cur.clone();
        s.reopen = Some(Box::new(move |mut old: PmTree, d: usize| -> Result<PmTree, String> {
            old.close_db_connection().map_err(|e| format!("flush: {e}"))?;
            drop(old);
            let path = cur3.borrow().clone();
            let cfg = PmtreeConfig::from_str(&cfg_json(&path, variant)).map_err(|e| e.to_string())?;
            PmTree::new(d, Fr::from(0u64), cfg).map_err(|e| e.to_string())
        }));
        s.placeholder = Some(Box::new(|| PmTree::default(1).expect("placeholder tree")));
        Ok(s)
    }
}

fn depths_for(thorough: bool, label: &str) -> Vec<usize> {
    if label.starts_with("rln") {
        return if thorough { vec![2, 3, 5, 8, 10, 11, 20] } else { vec![3, 8, 10, 11, 20] };
    }
    if label.contains("toy") {
        return vec![1, 2, 3, 4, 5, 8, 12];
    }
    if label == "full" {
        // FullMerkleTree at depth 20 allocates 2^21 nodes per instance: few histories there
        return if thorough { vec![1, 2, 3, 4, 5, 8, 12, 20] } else { vec![1, 2, 3, 5, 8, 12] };
    }
    vec![1, 2, 3, 4, 5, 8, 12, 20]
}

pub fn run(rep: &mut Rep, focus: Focus, args: &[String]) {
    let rln_only = args.iter().any(|a| a == "--rln-only");
    let thorough = rep.thorough();
    rep.rule = match focus {
        Focus::State => "generated histories over {set, delete, append, write_range, reset, compute_root} with positions inside/at/beyond capacity, empty ranges, ranges ending at capacity or crossing the middle, overwrites, deletes above the mark, few and wide positions; per step root + leaf count, periodically and after every rejected op all (small depth) or touched+boundary+sampled leaves and subtree roots vs the ideal tree. distinct_nontrivial = distinct model states (hash of leaves, flags, mark) reached after at least one range write or delete".to_string(),
        Focus::Batch => "generated histories dominated by batch updates (start in {0, mark-1, mark, mark+1, cap-n, cap-n+1, cap, random}, n in {0,1,2,3,5,17}, removal sets empty/single/contiguous before/inside/after/straddling/duplicated/unsorted/above the mark/beyond capacity) and batch initialisations; state after every batch compared with 'reset removed positions, then write n leaves'; rejected requests must leave the full observation unchanged; any panic of a batch request is a violation. distinct_nontrivial = distinct (backend, depth, n, #removals, removal placement, applied/rejected, start vs mark) keys".to_string(),
        Focus::Empties => "generated histories over all mutating operations (and close/reopen for the persistent backend); after every operation get_empty_leaves_indices must equal the ascending list of positions below the mark never written or last removed. distinct_nontrivial = distinct (backend, depth, last op kind, #empties, mark) keys".to_string(),
        Focus::Proofs => "in the states reached by generated histories, for all positions (depth <= 4) or touched/boundary/sampled ones: proof length, LSB-first position decoding, siblings = model siblings, recomputed root, acceptance by the tree's own verify, different leaf not accepted, each sibling (+1, random, swapped) and each direction bit tampered with the expected verdict computed by the model. distinct_nontrivial = distinct (backend, depth, position class, last op kind, state class) keys".to_string(),
    };
    rep.assumptions = vec![
        "ideal tree model with the reference Poseidon (toy hasher for the generic instantiations)".into(),
        "return codes are not compared, only observable state".into(),
    ];
    let bad = crate::refhash::self_test();
    if !bad.is_empty() {
        rep.inconclusive(format!("reference self-test failed: {:?}", bad));
        return;
    }
    let alpha = alpha_for(focus);
    let seed = rep.seed;
    let nsh = ncpu();
    // histories per (backend, depth)
    let base_n: usize = match (focus, thorough) {
        (Focus::Proofs, false) => 10,
        (Focus::Proofs, true) => 200,
        (_, false) => 60,
        (_, true) => 1500,
    };
    let hist_len = |rng: &mut rand_chacha::ChaCha8Rng| -> usize {
        use rand::Rng;
        [4usize, 8, 16, 30, 45][rng.gen_range(0..5)]
    };
    #[derive(Clone)]
    struct Job {
        kind: &'static str,
        depth: usize,
        n: usize,
    }
    let mut jobs: Vec<Job> = vec![];
    if !rln_only {
        let mut kinds: Vec<&'static str> = vec!["full", "optimal", "full-toy", "optimal-toy"];
        if cfg!(any(feature = "pm", feature = "full")) {
            kinds.push("pm");
            kinds.push("pm-persistent");
        }
        for k in kinds {
            for d in depths_for(thorough, k) {
                let scale = if d >= 20 && k == "pm-persistent" { 8 } else if d >= 20 { 4 } else { 1 };
                let toy = if k.contains("toy") { 4 } else { 1 };
                let pers = if k == "pm-persistent" && !matches!(focus, Focus::Empties) { 3 } else { 1 };
                jobs.push(Job { kind: k, depth: d, n: (base_n * toy / scale / pers).max(3) });
            }
        }
    }
    #[cfg(not(feature = "stateless"))]
    for d in depths_for(thorough, "rln") {
        let scale = if d >= 20 { 3 } else { 1 };
        jobs.push(Job { kind: "rln", depth: d, n: (base_n / scale).max(3) });
    }
    if let Ok(f) = std::env::var("VH_ONLY") {
        // debugging aid: "kind:depth"
        jobs.retain(|j| format!("{}:{}", j.kind, j.depth) == f);
    }
    // split jobs into units of work for the shards
    let mut units: Vec<(Job, usize)> = vec![];
    for j in jobs.iter() {
        let per = 6;
        let mut left = j.n;
        let mut u = 0;
        while left > 0 {
            let take = left.min(per);
            units.push((Job { kind: j.kind, depth: j.depth, n: take }, u));
            left -= take;
            u += 1;
        }
    }
    rep.note("units", json!(units.len()));
    par_shards(rep, nsh, |sh, r| {
        for (ui, (job, u)) in units.iter().enumerate() {
            if ui % nsh != sh {
                continue;
            }
            let tag = format!("{}-d{}-u{}", job.kind, job.depth, u);
            let mut rng = rng_for(seed, &format!("tree-{:?}-{}", focus, tag));
            let cfgp = MonCfg { focus, h: poseidon_h, full_obs_every: 8 };
            let cfgt = MonCfg { focus, h: toy_h, full_obs_every: 8 };
            let max_rm = usize::MAX;
            let t_unit = std::time::Instant::now();
            let run_on = |sut: &mut dyn Sut, cfg: &MonCfg, persistent: bool, max_rm: usize, r: &mut Rep, rng: &mut rand_chacha::ChaCha8Rng| {
                // sled-backed trees: keep most bulk writes in the left 2^10 leaves (see trees::bulk_pos)
                let bulk_limit = if sut.name().contains("pm") && job.depth > 10 { 1usize << 10 } else { usize::MAX };
                for h in 0..job.n {
                    let len = hist_len(rng);
                    let mut ops = vec![TOp::Reset];
                    ops.extend(gen_history_ex(rng, job.depth, len, alpha, persistent, max_rm, bulk_limit, sut.name().contains("pm")));
                    let res = run_history(r, cfg, sut, &ops, rng, &format!("{tag}-h{h}"));
                    r.count(&format!("histories|{}", sut.name()));
                    r.countn("history_steps", res.steps as u64);
                }
            };
            match job.kind {
                "full" => match TraitSut::<FullMerkleTree<PoseidonHash>>::new("full", job.depth, Box::new(|d| FullMerkleTree::<PoseidonHash>::default(d).map_err(|e| e.to_string()))) {
                    Ok(mut s) => run_on(&mut s, &cfgp, false, max_rm, r, &mut rng),
                    Err(e) => r.inconclusive(format!("cannot create full: {e}")),
                },
                "optimal" => match TraitSut::<OptimalMerkleTree<PoseidonHash>>::new("optimal", job.depth, Box::new(|d| OptimalMerkleTree::<PoseidonHash>::default(d).map_err(|e| e.to_string()))) {
                    Ok(mut s) => run_on(&mut s, &cfgp, false, max_rm, r, &mut rng),
                    Err(e) => r.inconclusive(format!("cannot create optimal: {e}")),
                },
                "full-toy" => match TraitSut::<FullMerkleTree<ToyHash>>::new("full", job.depth, Box::new(|d| FullMerkleTree::<ToyHash>::default(d).map_err(|e| e.to_string()))) {
                    Ok(mut s) => run_on(&mut s, &cfgt, false, max_rm, r, &mut rng),
                    Err(e) => r.inconclusive(format!("cannot create full-toy: {e}")),
                },
                "optimal-toy" => match TraitSut::<OptimalMerkleTree<ToyHash>>::new("optimal", job.depth, Box::new(|d| OptimalMerkleTree::<ToyHash>::default(d).map_err(|e| e.to_string()))) {
                    Ok(mut s) => run_on(&mut s, &cfgt, false, max_rm, r, &mut rng),
                    Err(e) => r.inconclusive(format!("cannot create optimal-toy: {e}")),
                },
                #[cfg(any(feature = "pm", feature = "full"))]
                "pm" => match pm::pm_temp(job.depth, *u) {
                    Ok(mut s) => run_on(&mut s, &cfgp, false, max_rm, r, &mut rng),
                    Err(e) => r.inconclusive(format!("cannot create pm: {e}")),
                },
                #[cfg(any(feature = "pm", feature = "full"))]
                "pm-persistent" => match pm::pm_persistent(job.depth, &tag, *u) {
                    Ok(mut s) => run_on(&mut s, &cfgp, true, max_rm, r, &mut rng),
                    Err(e) => r.inconclusive(format!("cannot create pm-persistent: {e}")),
                },
                #[cfg(not(feature = "stateless"))]
                "rln" => {
                    for h in 0..job.n {
                        // a fresh instance per history (set_tree, used for Reset inside histories, switches
                        // the persistent backend to its slow default configuration)
                        match RlnSut::new(job.depth, "{}") {
                            Ok(mut s) => {
                                let bulk_limit = if s.name().contains("pm") && job.depth > 10 { 1usize << 10 } else { usize::MAX };
                                let len = hist_len(&mut rng).min(if job.depth >= 20 { 16 } else { 45 });
                                let mut ops = gen_history_ex(&mut rng, job.depth, len, alpha, false, 255, bulk_limit, s.name().contains("pm"));
                                if job.depth >= 20 && s.name().contains("pm") {
                                    // set_tree / init_tree_with_leaves switch the sled backend to its 150 kB-cache default
                                    // configuration, which makes every later operation at depth 20 take ~0.3 s: keep at
                                    // most one reset, as the last but one operation
                                    let n = ops.len();
                                    let mut seen = false;
                                    for (k, op) in ops.iter_mut().enumerate() {
                                        if matches!(op, TOp::Reset | TOp::Init(_)) {
                                            if k + 2 == n && !seen {
                                                seen = true;
                                            } else {
                                                *op = TOp::Append(gen_leaf(&mut rng));
                                            }
                                        }
                                    }
                                }
                                let res = run_history(r, &cfgp, &mut s, &ops, &mut rng, &format!("{tag}-h{h}"));
                                r.count(&format!("histories|{}", s.name()));
                                r.countn("history_steps", res.steps as u64);
                            }
                            Err(e) => r.inconclusive(format!("cannot create rln instance: {e}")),
                        }
                    }
                }
                _ => {}
            }
            r.countn(&format!("ms|{}|d{}", job.kind, job.depth), t_unit.elapsed().as_millis() as u64);
        }
    });
    #[cfg(not(feature = "stateless"))]
    {
        rep.countn("rln_batch_calls_with_stale_bytes_after_the_declared_leaves", crate::trees::SLACK_CALLS.load(std::sync::atomic::Ordering::Relaxed));
        rep.countn("rln_batch_calls_with_stale_bytes_refused_and_repeated_plain", crate::trees::SLACK_REFUSED.load(std::sync::atomic::Ordering::Relaxed));
    }
    // a sample history with the observations made
    {
        let mut rng = rng_for(seed, "tree-sample");
        let ops = gen_history(&mut rng, 3, 6, alpha, false, usize::MAX, usize::MAX);
        rep.sample(json!({"depth": 3, "history": ops.iter().map(|o| o.show()).collect::<Vec<_>>(), "checked": "root and leaf count after every step; all 8 leaves, all subtree roots (and empties/proofs per focus) at full observations"}));
    }
}
