//! C09 -- Poseidon and hash-to-field conform to their specifications; purity across calls,
//! threads and entry points. In-process oracle: from-spec reference (refhash). A sample of the
//! observed records is logged for the offline Python checker (oracles/check_hash_log.py).

use crate::common::*;
use crate::ffiu;
use crate::refhash::*;
use ark_bn254::Fr;
use rand::Rng;
use serde_json::json;
use std::io::Write;
use std::sync::{Arc, Barrier, Mutex};

fn typed(v: &[Fr]) -> Result<Fr, Panicked> {
    catch(|| rln::hashers::poseidon_hash(v))
}

fn bytes_ep(v: &[Fr]) -> Result<Option<Vec<u8>>, Panicked> {
    let enc = crate::codec::enc_vec_fr(v);
    catch(|| {
        let mut out = Vec::new();
        rln::public::poseidon_hash(std::io::Cursor::new(enc), &mut out).ok().map(|_| out)
    })
}

fn ffi_ep(v: &[Fr]) -> Result<Option<Vec<u8>>, Panicked> {
    let enc = crate::codec::enc_vec_fr(v);
    catch(|| ffiu::call_io(rln::ffi::poseidon_hash, &enc))
}

struct Log {
    f: Option<std::fs::File>,
    n: usize,
    cap: usize,
}
impl Log {
    fn rec(&mut self, v: serde_json::Value) {
        if self.n < self.cap {
            if let Some(f) = self.f.as_mut() {
                let _ = writeln!(f, "{}", v);
            }
            self.n += 1;
        }
    }
}

fn check_poseidon(rep: &mut Rep, log: &mut Log, label: &str, v: &[Fr], all_eps: bool) {
    let want = poseidon_ref(v);
    rep.stratum(format!("poseidon|n={}|{}", v.len(), label));
    rep.ev();
    let ins: Vec<String> = v.iter().map(fr_s).collect();
    match typed(v) {
        Ok(g) => {
            if g != want {
                rep.violation(format!("poseidon:typed:mismatch:n={}", v.len()), json!({"inputs": ins, "expected": fr_s(&want), "got": fr_s(&g)}));
            }
            log.rec(json!({"k": "poseidon", "entry": "typed", "in": ins, "out": fr_s(&g)}));
        }
        Err(p) => rep.violation(format!("poseidon:typed:panic:{}", p.file()), json!({"inputs": ins, "panic": p.msg, "at": p.loc})),
    }
    if all_eps {
        let want_b = fr_le32(&want).to_vec();
        for (name, r) in [("bytes", bytes_ep(v)), ("ffi", ffi_ep(v))] {
            rep.ev();
            match r {
                Ok(Some(b)) => {
                    if b != want_b {
                        rep.violation(format!("poseidon:{name}:mismatch:n={}", v.len()), json!({"inputs": ins, "expected": hex(&want_b), "got": hex(&b)}));
                    }
                    log.rec(json!({"k": "poseidon", "entry": name, "in": ins, "out_hex": hex(&b)}));
                }
                Ok(None) => rep.violation(format!("poseidon:{name}:error:n={}", v.len()), json!({"inputs": ins})),
                Err(p) => rep.violation(format!("poseidon:{name}:panic:{}", p.file()), json!({"inputs": ins, "panic": p.msg, "at": p.loc})),
            }
        }
    }
}

fn check_h2f(rep: &mut Rep, log: &mut Log, label: &str, b: &[u8], all_eps: bool) {
    let want = hash_to_field_ref(b);
    rep.stratum(format!("h2f|{}", label));
    rep.ev();
    match catch(|| rln::hashers::hash_to_field(b)) {
        Ok(g) => {
            if g != want {
                rep.violation("h2f:typed:mismatch", json!({"len": b.len(), "input": hex_short(b), "expected": fr_s(&want), "got": fr_s(&g)}));
            }
            if b.len() <= 400 {
                log.rec(json!({"k": "h2f", "entry": "typed", "in_hex": hex(b), "out": fr_s(&g)}));
            }
        }
        Err(p) => rep.violation(format!("h2f:typed:panic:{}", p.file()), json!({"len": b.len(), "panic": p.msg, "at": p.loc})),
    }
    if all_eps {
        let want_b = fr_le32(&want).to_vec();
        let r1 = catch(|| {
            let mut out = Vec::new();
            rln::public::hash(std::io::Cursor::new(b.to_vec()), &mut out).ok().map(|_| out)
        });
        let r2 = catch(|| ffiu::call_io(rln::ffi::hash, b));
        for (name, r) in [("bytes", r1), ("ffi", r2)] {
            rep.ev();
            match r {
                Ok(Some(o)) => {
                    if o != want_b {
                        rep.violation(format!("h2f:{name}:mismatch"), json!({"len": b.len(), "input": hex_short(b), "expected": hex(&want_b), "got": hex(&o)}));
                    }
                }
                Ok(None) => rep.violation(format!("h2f:{name}:error"), json!({"len": b.len()})),
                Err(p) => rep.violation(format!("h2f:{name}:panic:{}", p.file()), json!({"len": b.len(), "panic": p.msg, "at": p.loc})),
            }
        }
    }
}

pub fn run(rep: &mut Rep) {
    rep.rule = "poseidon_hash for arity 1..8 with every boundary value in every position (other positions random / equal), all-equal vectors, random vectors; hash_to_field for every length 0..300, block boundaries, 64 kB, 1 MB, constant fills, random; through typed, byte-level and FFI entry points; first use raced by 16 threads. Oracle: from-spec Poseidon (Grain LFSR constants) and Keccak-256. distinct_nontrivial = distinct (function, arity, position, boundary label | length class)".into();
    rep.assumptions = vec![
        "reference Poseidon/Keccak written from the specifications and anchored on circomlib / Keccak test vectors (self-test at start)".into(),
        "arkworks Fr arithmetic is shared between zerokit and the reference".into(),
    ];
    let thorough = rep.thorough();
    let seed = rep.seed;

    // (0) fresh-process race on the lazily initialised Poseidon parameters: 16 threads make their
    // first call simultaneously; nothing in this process has touched rln's POSEIDON before.
    let inputs: Vec<Vec<Fr>> = (1..=8usize).map(|n| (0..n).map(|i| Fr::from((i * 7 + n) as u64)).collect()).collect();
    let nthreads = 16;
    let barrier = Arc::new(Barrier::new(nthreads));
    let results: Arc<Mutex<Vec<Vec<Option<Fr>>>>> = Arc::new(Mutex::new(vec![]));
    std::thread::scope(|s| {
        for t in 0..nthreads {
            let barrier = barrier.clone();
            let results = results.clone();
            let inputs = &inputs;
            s.spawn(move || {
                barrier.wait();
                let mut mine = vec![];
                // different threads start with different arities so that all parameter sets are raced
                for k in 0..inputs.len() {
                    let v = &inputs[(k + t) % inputs.len()];
                    mine.push(((k + t) % inputs.len(), catch(|| rln::hashers::poseidon_hash(v)).ok()));
                }
                mine.sort_by_key(|x| x.0);
                results.lock().unwrap().push(mine.into_iter().map(|x| x.1).collect());
            });
        }
    });
    // only now build the reference parameters and run its anchors
    let bad = self_test();
    if !bad.is_empty() {
        rep.inconclusive(format!("reference self-test failed: {:?}", bad));
        return;
    }
    for (t, r) in results.lock().unwrap().iter().enumerate() {
        for (k, got) in r.iter().enumerate() {
            rep.ev();
            rep.stratum(format!("race-first-use|n={}", k + 1));
            let want = poseidon_ref(&inputs[k]);
            match got {
                Some(g) if *g == want => {}
                Some(g) => rep.violation(format!("poseidon:first-use-race:mismatch:n={}", k + 1), json!({"thread": t, "expected": fr_s(&want), "got": fr_s(g)})),
                None => rep.violation("poseidon:first-use-race:panic", json!({"thread": t, "arity": k + 1})),
            }
        }
    }
    rep.count("first_use_race_threads");
    rep.countn("first_use_race_results", (nthreads * 8) as u64);

    let run_dir = std::env::var("VH_RUN_DIR").ok();
    let mut log = Log {
        f: run_dir.as_ref().and_then(|d| std::fs::File::create(format!("{d}/c09.log.jsonl")).ok()),
        n: 0,
        cap: if thorough { 60_000 } else { 6_000 },
    };

    let grid = fr_boundary();
    let mut rng = rng_for(seed, "c09");
    // (1) boundary grid in every position
    for n in 1..=8usize {
        for pos in 0..n {
            for (lab, g) in grid.iter() {
                for fill in 0..3 {
                    let mut v: Vec<Fr> = match fill {
                        0 => (0..n).map(|_| rand_fr(&mut rng)).collect(),
                        1 => vec![Fr::from(0u64); n],
                        _ => vec![*g; n],
                    };
                    v[pos] = *g;
                    let l = format!("pos={pos}|{lab}|fill={fill}");
                    check_poseidon(rep, &mut log, &l, &v, fill == 0);
                }
            }
        }
        // pairs of boundary values in two positions
        if n >= 2 {
            for (la, a) in grid.iter() {
                for (lb, b) in grid.iter().step_by(3) {
                    let mut v: Vec<Fr> = (0..n).map(|_| rand_fr(&mut rng)).collect();
                    v[0] = *a;
                    v[n - 1] = *b;
                    check_poseidon(rep, &mut log, &format!("ends|{la}|{lb}"), &v, false);
                }
            }
        }
    }
    // (1b) history (in)dependence: the hash is a pure function, so the result must not depend on what was hashed
    // just before on the same thread. Prefix chains (v[..n] for n = 1..8) and equal-element vectors are hashed in
    // ascending, descending and shuffled order, through alternating entry points, and each result is compared
    // with the reference.
    {
        use rand::seq::SliceRandom;
        for round in 0..(if thorough { 200 } else { 24 }) {
            let base: Vec<Fr> = match round % 4 {
                0 => (0..8).map(|_| rand_fr(&mut rng)).collect(),
                1 => vec![grid[round % grid.len()].1; 8],
                2 => (0..8).map(|i| Fr::from(i as u64)).collect(),
                _ => (0..8).map(|i| if i % 2 == 0 { Fr::from(0u64) } else { rand_fr(&mut rng) }).collect(),
            };
            let mut order: Vec<usize> = (1..=8).collect();
            match (round / 4) % 3 {
                0 => {}
                1 => order.reverse(),
                _ => order.shuffle(&mut rng),
            }
            // walk the chain twice so that every length is preceded by a longer and by a shorter input at some point
            let walk: Vec<usize> = order.iter().chain(order.iter().rev()).cloned().collect();
            for (k, n) in walk.iter().enumerate() {
                let v = &base[..*n];
                check_poseidon(rep, &mut log, &format!("prefix-chain|round%4={}|order={}", round % 4, (round / 4) % 3), v, k % 3 == 0);
            }
        }
        // same for hash_to_field: prefixes / extensions of one byte string in varying order
        let baseb = rand_bytes(&mut rng, 300);
        let mut lens: Vec<usize> = vec![0, 1, 2, 31, 32, 33, 135, 136, 137, 271, 272, 300];
        for round in 0..6 {
            if round % 2 == 1 {
                lens.reverse();
            } else if round > 1 {
                lens.shuffle(&mut rng);
            }
            for l in lens.iter() {
                check_h2f(rep, &mut log, &format!("prefix-chain|len={l}"), &baseb[..*l], round == 0);
            }
        }
    }
    // (2) random vectors, sharded
    let nrand = if thorough { 2_000_000 } else { 120_000 };
    let nsh = ncpu();
    par_shards(rep, nsh, |sh, r| {
        let mut rng = rng_for(seed, &format!("c09-rand-{sh}"));
        let mut nolog = Log { f: None, n: 0, cap: 0 };
        for i in 0..nrand / nsh {
            let n = 1 + (i % 8);
            let v: Vec<Fr> = (0..n).map(|_| rand_fr(&mut rng)).collect();
            check_poseidon(r, &mut nolog, "random", &v, i % 64 == 0);
        }
    });
    // a logged random sample for the offline checker
    for i in 0..(if thorough { 20_000 } else { 2_000 }) {
        let n = 1 + (i % 8);
        let v: Vec<Fr> = (0..n).map(|_| rand_fr(&mut rng)).collect();
        check_poseidon(rep, &mut log, "random-logged", &v, false);
    }
    // (3) hash_to_field
    for len in 0..=300usize {
        let b = rand_bytes(&mut rng, len);
        check_h2f(rep, &mut log, &format!("len={len}"), &b, true);
        check_h2f(rep, &mut log, &format!("len={len}|zeros"), &vec![0u8; len], false);
        check_h2f(rep, &mut log, &format!("len={len}|ff"), &vec![0xffu8; len], false);
    }
    for len in [407usize, 408, 409, 543, 544, 545, 1000, 4096, 65536, 65537, 1 << 20, (1 << 20) + 135] {
        let b = rand_bytes(&mut rng, len);
        check_h2f(rep, &mut log, &format!("len={len}"), &b, true);
    }
    let nr = if thorough { 400_000 } else { 30_000 };
    par_shards(rep, nsh, |sh, r| {
        let mut rng = rng_for(seed, &format!("c09-h2f-{sh}"));
        let mut nolog = Log { f: None, n: 0, cap: 0 };
        for i in 0..nr / nsh {
            let len = match i % 4 {
                0 => rng.gen_range(0..64),
                1 => rng.gen_range(120..150),
                2 => rng.gen_range(260..285),
                _ => rng.gen_range(0..1200),
            };
            let b = rand_bytes(&mut rng, len);
            check_h2f(r, &mut nolog, &format!("rand|blocks={}", len / 136), &b, i % 32 == 0);
        }
    });
    // (4) concurrent purity: 16 threads hashing the same inputs; all outputs equal to the reference
    let fixed: Vec<Vec<Fr>> = (0..64).map(|i| (0..(1 + i % 8)).map(|_| rand_fr(&mut rng)).collect()).collect();
    let fixed_b: Vec<Vec<u8>> = (0..64).map(|i| rand_bytes(&mut rng, i * 9)).collect();
    par_shards(rep, 16, |t, r| {
        for round in 0..(if thorough { 200 } else { 20 }) {
            for (i, v) in fixed.iter().enumerate() {
                r.ev();
                let g = match (t + round) % 3 {
                    0 => typed(v).ok().map(|x| fr_le32(&x).to_vec()),
                    1 => bytes_ep(v).ok().flatten(),
                    _ => ffi_ep(v).ok().flatten(),
                };
                if g != Some(fr_le32(&poseidon_ref(v)).to_vec()) {
                    r.violation("poseidon:concurrent:mismatch", json!({"thread": t, "input": i}));
                }
            }
            for (i, b) in fixed_b.iter().enumerate() {
                r.ev();
                if catch(|| rln::hashers::hash_to_field(b)).ok() != Some(hash_to_field_ref(b)) {
                    r.violation("h2f:concurrent:mismatch", json!({"thread": t, "input": i}));
                }
            }
        }
        r.stratum(format!("concurrent|thread={t}"));
    });
    rep.note("logged_records", json!(log.n));
    rep.sample(json!({"poseidon_in": ["1", "2"], "ref": fr_s(&poseidon_ref(&[Fr::from(1u64), Fr::from(2u64)])), "zerokit": fr_s(&rln::hashers::poseidon_hash(&[Fr::from(1u64), Fr::from(2u64)]))}));
    rep.sample(json!({"hash_to_field_in_hex": "", "ref": fr_s(&hash_to_field_ref(b"")), "zerokit": fr_s(&rln::hashers::hash_to_field(b""))}));
    let b137 = vec![0xabu8; 137];
    rep.sample(json!({"hash_to_field_in": "0xab * 137", "ref": fr_s(&hash_to_field_ref(&b137)), "zerokit": fr_s(&rln::hashers::hash_to_field(&b137))}));
}
