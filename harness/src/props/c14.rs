//! C14 -- identities satisfy the commitment relations; seeded ones are reproducible.
//! Relation monitor (reference Poseidon), independent re-derivation of seeded identities
//! (Keccak-256 -> ChaCha20 -> rejection sampling), cross-thread / cross-process / cross-entry-point
//! equality, distinctness of unseeded identities and of identities from distinct seeds.

use crate::codec::*;
use crate::common::*;
use crate::refhash::*;
use ark_bn254::Fr;
use rand::Rng;
use rln::protocol::*;
use serde_json::json;
use std::collections::{BTreeMap, HashSet};
use std::mem::MaybeUninit;

pub fn seeds(seed: u64, nrand: usize) -> Vec<(String, Vec<u8>)> {
    let mut rng = rng_for(seed, "c14-seeds");
    let mut out: Vec<(String, Vec<u8>)> = vec![
        ("empty".into(), vec![]),
        ("doc:0..9".into(), (0u8..10).collect()),
        ("doc:phrase".into(), b"A seed phrase example".to_vec()),
        ("1byte:00".into(), vec![0]),
        ("1byte:01".into(), vec![1]),
        ("2bytes:0000".into(), vec![0, 0]),
        ("32:zero".into(), vec![0; 32]),
        ("32:ff".into(), vec![0xff; 32]),
    ];
    // long seeds (buffer-size boundaries of common readers: 4 kB, 8 kB, 64 kB) and pairs of long seeds that
    // share a long prefix
    for len in [4095usize, 4096, 4097, 8191, 8192, 8193, 16384, 65535, 65536, 65537, 1 << 20] {
        let b = rand_bytes(&mut rng, len);
        out.push((format!("long-len={len}"), b.clone()));
        if len > 8192 {
            let mut c = b.clone();
            let l = c.len();
            c[l - 1] ^= 1;
            out.push((format!("long-len={len}^lastbit"), c));
        }
    }
    for len in [31usize, 32, 33, 64, 135, 136, 137, 271, 272, 273, 1000] {
        out.push((format!("len={len}"), rand_bytes(&mut rng, len)));
    }
    // seeds differing in one bit / by a trailing zero byte
    let base = rand_bytes(&mut rng, 40);
    out.push(("base40".into(), base.clone()));
    for bit in [0usize, 7, 8, 159, 319] {
        let mut b = base.clone();
        b[bit / 8] ^= 1 << (bit % 8);
        out.push((format!("base40^bit{bit}"), b));
    }
    let mut b = base.clone();
    b.push(0);
    out.push(("base40+00".into(), b));
    out.push(("base40-last".into(), base[..39].to_vec()));
    // every value of the last and of the first byte (line terminators, NUL, blanks, 0xff ...) after / before a
    // common stem, and the stem with "\r\n": seeds are bytes, nothing in them is formatting
    let stem = rand_bytes(&mut rng, 11);
    for v in 0..=255u8 {
        let mut b = stem.clone();
        b.push(v);
        out.push((format!("stem+last={v:02x}"), b));
        let mut b = vec![v];
        b.extend_from_slice(&stem);
        out.push((format!("first={v:02x}+stem"), b));
    }
    out.push(("stem".into(), stem.clone()));
    let mut b = stem.clone();
    b.extend_from_slice(b"\r\n");
    out.push(("stem+crlf".into(), b));
    for v in [0x0au8, 0x0d, 0x20, 0x00] {
        out.push((format!("only={v:02x}"), vec![v]));
    }
    for i in 0..nrand {
        let len = rng.gen_range(0..80);
        out.push((format!("rand{i}"), rand_bytes(&mut rng, len)));
    }
    out
}

fn derive_all(seedlist: &[(String, Vec<u8>)]) -> Vec<[Fr; 6]> {
    seedlist
        .iter()
        .map(|(_, s)| {
            let (a, b) = seeded_keygen(s);
            let (t, n, sec, c) = extended_seeded_keygen(s);
            [a, b, t, n, sec, c]
        })
        .collect()
}

fn digest_of(v: &[[Fr; 6]]) -> String {
    let flat: Vec<Fr> = v.iter().flat_map(|x| x.iter().cloned()).collect();
    crate::noderef::digest_frs(&flat)
}

/// child process: derive the identities of the seed list and print the digest
pub fn child(args: &[String]) -> i32 {
    let seed: u64 = args.get(2).and_then(|s| s.parse().ok()).unwrap_or(0);
    let n: usize = args.get(3).and_then(|s| s.parse().ok()).unwrap_or(100);
    let sl = seeds(seed, n);
    println!("{}", digest_of(&derive_all(&sl)));
    0
}

pub fn run(rep: &mut Rep) {
    rep.rule = "seeded identities for boundary and random seeds compared with an independent derivation (Keccak-256, ChaCha20 block function, mask-and-reject sampling of a Montgomery residue) and with the documented vectors; commitment relations checked with the reference Poseidon; same seeds re-derived in 16 threads, 4 child processes and through RLN methods and the FFI; unseeded identities checked for relations, canonical encoding and distinctness; unseeded calls made right after 0..3 seeded calls on the same thread (8 threads making the same calls) must be outside the seeded generator's stream (first 24 elements, from-spec) and distinct across threads, and the seeded calls in between still give the reference values. distinct_nontrivial = distinct (kind, seed label | entry point | thread) keys".into();
    rep.assumptions = vec![
        "reference derivation follows rand_chacha 0.3 / arkworks 0.5 sampling as described in DESIGN.md Appendix A".into(),
        "documented vectors: the pinned values of rln/tests (seed bytes 0..9, 'A seed phrase example')".into(),
    ];
    let bad = self_test();
    if !bad.is_empty() {
        rep.inconclusive(format!("reference self-test failed: {:?}", bad));
        return;
    }
    let thorough = rep.thorough();
    let nrand = if thorough { 20_000 } else { 1_000 };
    let sl = seeds(rep.seed, nrand);
    let hexfr = |s: &str| big_to_fr(&num_bigint::BigUint::parse_bytes(s.as_bytes(), 16).unwrap());

    // (1) typed entry point vs independent derivation + relations
    let mine = derive_all(&sl);
    let mut seen_secret: BTreeMap<Vec<u8>, String> = BTreeMap::new();
    for ((lab, s), got) in sl.iter().zip(mine.iter()) {
        rep.ev();
        rep.stratum(format!("seeded|{}", if lab.starts_with("rand") { format!("rand-len{}", s.len() / 16) } else { lab.clone() }));
        let (rs, rc) = seeded_keygen_ref(s);
        let (rt, rn, rsec, rcm) = extended_seeded_keygen_ref(s);
        if got[0] != rs || got[1] != rc {
            rep.violation("seeded_keygen:differs-from-reference-derivation", json!({"seed": hex_short(s), "label": lab, "got": [fr_s(&got[0]), fr_s(&got[1])], "expected": [fr_s(&rs), fr_s(&rc)]}));
        }
        if got[2] != rt || got[3] != rn || got[4] != rsec || got[5] != rcm {
            rep.violation("extended_seeded_keygen:differs-from-reference-derivation", json!({"seed": hex_short(s), "label": lab}));
        }
        if got[1] != poseidon_ref(&[got[0]]) {
            rep.violation("seeded_keygen:commitment-relation", json!({"seed": hex_short(s)}));
        }
        if got[4] != poseidon_ref(&[got[2], got[3]]) || got[5] != poseidon_ref(&[got[4]]) {
            rep.violation("extended_seeded_keygen:relation", json!({"seed": hex_short(s)}));
        }
        // distinct seeds -> distinct identities
        if let Some(prev) = seen_secret.insert(fr_le32(&got[0]).to_vec(), lab.clone()) {
            if sl.iter().find(|x| x.0 == prev).map(|x| &x.1) != Some(s) {
                rep.violation("seeded_keygen:collision-of-distinct-seeds", json!({"a": prev, "b": lab}));
            }
        }
    }
    // documented vectors
    rep.ev();
    let d = &mine[1];
    if d[0] != hexfr("766ce6c7e7a01bdf5b3f257616f603918c30946fa23480f2859c597817e6716")
        || d[1] != hexfr("bf16d2b5c0d6f9d9d561e05bfca16a81b4b873bb063508fae360d8c74cef51f")
        || d[2] != hexfr("766ce6c7e7a01bdf5b3f257616f603918c30946fa23480f2859c597817e6716")
        || d[3] != hexfr("1f18714c7bc83b5bca9e89d404cf6f2f585bc4c0f7ed8b53742b7e2b298f50b4")
        || d[4] != hexfr("2aca62aaa7abaf3686fff2caf00f55ab9462dc12db5b5d4bcf3994e671f8e521")
        || d[5] != hexfr("68b66aa0a8320d2e56842581553285393188714c48f9b17acd198b4f1734c5c")
    {
        rep.violation("seeded:documented-vector:bytes0..9", json!({"got": d.iter().map(fr_s).collect::<Vec<_>>()}));
    }
    let d = &mine[2];
    if d[0] != hexfr("20df38f3f00496f19fe7c6535492543b21798ed7cb91aebe4af8012db884eda3")
        || d[1] != hexfr("1223a78a5d66043a7f9863e14507dc80720a5602b2a894923e5b5147d5a9c325")
    {
        rep.violation("seeded:documented-vector:phrase", json!({"got": [fr_s(&d[0]), fr_s(&d[1])]}));
    }
    rep.sample(json!({"seed_hex": "00010203040506070809", "seeded_keygen": [fr_s(&mine[1][0]), fr_s(&mine[1][1])], "reference_derivation": {"secret": fr_s(&seeded_keygen_ref(&sl[1].1).0)}}));

    // (2) threads: 16 threads re-derive everything concurrently
    let want_digest = digest_of(&mine);
    par_shards(rep, 16, |t, r| {
        r.ev();
        r.stratum(format!("thread|{t}"));
        let d = digest_of(&derive_all(&sl));
        if d != want_digest {
            r.violation("seeded:thread-dependent", json!({"thread": t}));
        }
    });
    // (3) child processes
    if let Ok(me) = std::env::var("VH_SELF").or_else(|_| std::env::current_exe().map(|p| p.to_string_lossy().to_string())) {
        let kids: Vec<_> = (0..4)
            .map(|_| {
                std::process::Command::new(&me)
                    .args(["c14-child", &rep.seed.to_string(), &nrand.to_string()])
                    .stdout(std::process::Stdio::piped())
                    .spawn()
            })
            .collect();
        for (i, k) in kids.into_iter().enumerate() {
            rep.ev();
            rep.stratum(format!("process|{i}"));
            match k.and_then(|c| c.wait_with_output()) {
                Ok(o) if o.status.success() => {
                    if String::from_utf8_lossy(&o.stdout).trim() != want_digest {
                        rep.violation("seeded:process-dependent", json!({"child": i}));
                    }
                }
                other => rep.inconclusive(format!("child process failed: {:?}", other.map(|o| o.status))),
            }
        }
    }
    // (4) RLN methods and FFI
    #[cfg(not(feature = "stateless"))]
    let inst = catch(|| rln::public::RLN::new(20, std::io::Cursor::new("{}".to_string())));
    #[cfg(feature = "stateless")]
    let inst = catch(|| rln::public::RLN::new());
    match inst {
        Ok(Ok(r)) => {
            let ctx: *const rln::public::RLN = &r;
            for ((lab, s), got) in sl.iter().zip(mine.iter()).take(if thorough { 5000 } else { 400 }) {
                let want2: Vec<u8> = [enc_fr(&got[0]), enc_fr(&got[1])].concat();
                let want4: Vec<u8> = [enc_fr(&got[2]), enc_fr(&got[3]), enc_fr(&got[4]), enc_fr(&got[5])].concat();
                rep.ev();
                let mut o = vec![];
                let _ = r.seeded_key_gen(std::io::Cursor::new(s.clone()), &mut o);
                if o != want2 {
                    rep.violation("seeded:entry-point:RLN::seeded_key_gen", json!({"seed": lab, "got": hex(&o)}));
                }
                let mut o = vec![];
                let _ = r.seeded_extended_key_gen(std::io::Cursor::new(s.clone()), &mut o);
                if o != want4 {
                    rep.violation("seeded:entry-point:RLN::seeded_extended_key_gen", json!({"seed": lab}));
                }
                rep.ev();
                let ib = crate::ffiu::buf(s);
                let mut ob = MaybeUninit::<rln::ffi::Buffer>::uninit();
                if !rln::ffi::seeded_key_gen(ctx, &ib, ob.as_mut_ptr()) || crate::ffiu::read_out(&ob) != want2 {
                    rep.violation("seeded:entry-point:ffi::seeded_key_gen", json!({"seed": lab}));
                }
                let mut ob = MaybeUninit::<rln::ffi::Buffer>::uninit();
                if !rln::ffi::seeded_extended_key_gen(ctx, &ib, ob.as_mut_ptr()) || crate::ffiu::read_out(&ob) != want4 {
                    rep.violation("seeded:entry-point:ffi::seeded_extended_key_gen", json!({"seed": lab}));
                }
            }
            // the same seeds delivered by a reader that returns short reads (1..7 bytes at a time)
            struct Dribble<'a>(&'a [u8], usize);
            impl<'a> std::io::Read for Dribble<'a> {
                fn read(&mut self, buf: &mut [u8]) -> std::io::Result<usize> {
                    let n = (1 + self.1 % 7).min(self.0.len()).min(buf.len());
                    buf[..n].copy_from_slice(&self.0[..n]);
                    self.0 = &self.0[n..];
                    self.1 += 1;
                    Ok(n)
                }
            }
            for ((lab, s), got) in sl.iter().zip(mine.iter()).filter(|x| x.0 .1.len() <= 20_000).take(60) {
                rep.ev();
                let want2: Vec<u8> = [enc_fr(&got[0]), enc_fr(&got[1])].concat();
                let mut o = vec![];
                let _ = r.seeded_key_gen(Dribble(s, 0), &mut o);
                if o != want2 {
                    rep.violation("seeded:entry-point:RLN::seeded_key_gen(short reads)", json!({"seed": lab, "len": s.len()}));
                }
                let want4: Vec<u8> = [enc_fr(&got[2]), enc_fr(&got[3]), enc_fr(&got[4]), enc_fr(&got[5])].concat();
                let mut o = vec![];
                let _ = r.seeded_extended_key_gen(Dribble(s, 3), &mut o);
                if o != want4 {
                    rep.violation("seeded:entry-point:RLN::seeded_extended_key_gen(short reads)", json!({"seed": lab, "len": s.len()}));
                }
            }
            rep.stratum("entry|RLN(short reads)");
            rep.stratum("entry|RLN");
            rep.stratum("entry|ffi");
            // unseeded through RLN / FFI: relations + canonical encodings + distinctness
            let mut seen: HashSet<Vec<u8>> = HashSet::new();
            for i in 0..(if thorough { 20_000 } else { 2_000 }) {
                rep.ev();
                let mut o = vec![];
                if i % 2 == 0 {
                    let _ = r.key_gen(&mut o);
                } else {
                    let mut ob = MaybeUninit::<rln::ffi::Buffer>::uninit();
                    if rln::ffi::key_gen(ctx, ob.as_mut_ptr()) {
                        o = crate::ffiu::read_out(&ob);
                    }
                }
                match dec_frs(&o, 2) {
                    Some(v) => {
                        if v[1] != poseidon_ref(&[v[0]]) {
                            rep.violation("key_gen:commitment-relation", json!({"bytes": hex(&o)}));
                        }
                        if !seen.insert(o[..32].to_vec()) {
                            rep.violation("key_gen:repeated-identity", json!({"bytes": hex(&o)}));
                        }
                    }
                    None => rep.violation("key_gen:non-canonical-or-short", json!({"bytes": hex(&o)})),
                }
                let mut o = vec![];
                if i % 2 == 0 {
                    let _ = r.extended_key_gen(&mut o);
                } else {
                    let mut ob = MaybeUninit::<rln::ffi::Buffer>::uninit();
                    if rln::ffi::extended_key_gen(ctx, ob.as_mut_ptr()) {
                        o = crate::ffiu::read_out(&ob);
                    }
                }
                match dec_frs(&o, 4) {
                    Some(v) => {
                        if v[2] != poseidon_ref(&[v[0], v[1]]) || v[3] != poseidon_ref(&[v[2]]) {
                            rep.violation("extended_key_gen:relation", json!({"bytes": hex(&o)}));
                        }
                        if !seen.insert(o[..32].to_vec()) {
                            rep.violation("extended_key_gen:repeated-identity", json!({"bytes": hex(&o)}));
                        }
                    }
                    None => rep.violation("extended_key_gen:non-canonical-or-short", json!({"bytes": hex(&o)})),
                }
            }
            rep.stratum("unseeded|RLN+ffi");
        }
        Ok(Err(e)) => rep.inconclusive(format!("RLN::new failed: {e}")),
        Err(p) => rep.inconclusive(format!("RLN::new panicked: {}", p.msg)),
    }
    // (5) unseeded typed calls across threads: relations and distinctness
    let all: std::sync::Mutex<HashSet<Vec<u8>>> = std::sync::Mutex::new(HashSet::new());
    let per = if thorough { 60_000 } else { 3_000 };
    par_shards(rep, 16, |t, r| {
        let mut local = vec![];
        for i in 0..per {
            r.ev();
            if i % 2 == 0 {
                let (s, c) = keygen();
                if c != poseidon_ref(&[s]) {
                    r.violation("keygen:commitment-relation", json!({"secret": fr_s(&s)}));
                }
                local.push(fr_le32(&s).to_vec());
            } else {
                let (tr, n, s, c) = extended_keygen();
                if s != poseidon_ref(&[tr, n]) || c != poseidon_ref(&[s]) {
                    r.violation("extended_keygen:relation", json!({"trapdoor": fr_s(&tr)}));
                }
                local.push(fr_le32(&tr).to_vec());
            }
        }
        let mut g = all.lock().unwrap();
        for l in local {
            if !g.insert(l) {
                r.violation("keygen:repeated-identity-across-threads", json!({"thread": t}));
            }
        }
        r.stratum(format!("unseeded|thread{t}"));
    });
    // (6) unseeded calls right after seeded ones, on the same thread, through every pairing of entry points: the
    // unseeded identity must not be a function of the seed (not in the seeded generator's stream, not repeated by
    // another thread that made the same calls), and a seeded call after unseeded ones still gives the reference value
    {
        let seeds: Vec<Vec<u8>> = vec![b"".to_vec(), vec![0u8; 32], b"seed-A".to_vec(), (0u8..=9).collect(), vec![7u8; 100]];
        let streams: Vec<HashSet<Vec<u8>>> = seeds.iter().map(|s| seeded_stream_ref(s, 24).iter().map(|f| fr_le32(f).to_vec()).collect()).collect();
        let after: std::sync::Mutex<HashSet<Vec<u8>>> = std::sync::Mutex::new(HashSet::new());
        par_shards(rep, 8, |t, r| {
            let mut local: Vec<Vec<u8>> = vec![];
            for round in 0..(if thorough { 40 } else { 6 }) {
                for (si, seed) in seeds.iter().enumerate() {
                    r.ev();
                    // seeded call(s): 0..3 of them, plain or extended
                    let k = (round + si + t) % 4;
                    for j in 0..k {
                        if (j + round) % 2 == 0 {
                            let got = seeded_keygen(seed);
                            if got != seeded_keygen_ref(seed) {
                                r.violation("seeded_keygen:differs-from-reference:after-other-calls", json!({"seed": hex_short(seed), "thread": t}));
                            }
                        } else {
                            let got = extended_seeded_keygen(seed);
                            if got != extended_seeded_keygen_ref(seed) {
                                r.violation("extended_seeded_keygen:differs-from-reference:after-other-calls", json!({"seed": hex_short(seed), "thread": t}));
                            }
                        }
                    }
                    // unseeded call(s) right after
                    let mut vals: Vec<Fr> = vec![];
                    let (s1, c1) = keygen();
                    if c1 != poseidon_ref(&[s1]) {
                        r.violation("keygen:commitment-relation", json!({"after_seeded_calls": k}));
                    }
                    vals.push(s1);
                    let (tr, n, s2, _) = extended_keygen();
                    if s2 != poseidon_ref(&[tr, n]) {
                        r.violation("extended_keygen:relation", json!({"after_seeded_calls": k}));
                    }
                    vals.push(tr);
                    vals.push(n);
                    for v in vals {
                        let b = fr_le32(&v).to_vec();
                        if streams[si].contains(&b) {
                            r.violation("unseeded-after-seeded:identity-is-a-function-of-the-seed", json!({"seed": hex_short(seed), "seeded_calls_before": k, "thread": t}));
                        }
                        local.push(b);
                    }
                    r.stratum(format!("unseeded-after-seeded|{k}-seeded-calls-before|seed{si}"));
                }
            }
            let mut g = after.lock().unwrap();
            for l in local {
                if !g.insert(l) {
                    r.violation("unseeded-after-seeded:repeated-identity-across-threads", json!({"thread": t}));
                }
            }
        });
    }
    rep.note("unseeded_distinct_identities", json!(all.lock().unwrap().len()));
    rep.note("seeds", json!(sl.len()));
}
