//! C16 -- acknowledged tree updates survive reopen; storage failures are reported.
//! (A) reopen monitor: flush -> drop -> reopen must give the model's state for generated histories
//!     and storage configurations, and the reopened tree keeps following the model;
//! (B) fault enumeration: with the cfg(zerokit_verif) fail-after-N hook every storage operation of a
//!     history is made to fail once; the API call hit must return Err and everything acknowledged
//!     before it must be readable after disarm -> flush -> drop -> reopen;
//! (C) crash points: a child process is SIGKILLed at a random moment after an acknowledged flush;
//! (D) hostile reopen: reopen while another process still holds the storage lock.
#![cfg(all(not(feature = "stateless"), any(feature = "pm", feature = "full")))]

use crate::codec::*;
use crate::common::*;
use crate::model::Model;
use crate::trees::poseidon_h;
use ark_bn254::Fr;
use rand::Rng;
use rln::public::RLN;
use serde_json::json;
use std::io::{BufRead, BufReader, Cursor, Write};
use std::sync::atomic::Ordering;
use zerokit_utils::pm_tree::sled_adapter::verif_hooks as hooks;

#[derive(Clone, Debug)]
pub enum POp {
    Set(usize, Fr),
    Delete(usize),
    Append(Fr),
    Range(usize, Vec<Fr>),
    /// removals only, or leaves with removals inside the written range starting at its first position
    Batch(usize, Vec<Fr>, Vec<usize>),
    Meta(Vec<u8>),
    Flush,
    Reset,
    Init(Vec<Fr>),
}

impl POp {
    fn show(&self) -> String {
        match self {
            POp::Set(i, _) => format!("set({i})"),
            POp::Delete(i) => format!("delete({i})"),
            POp::Append(_) => "append".into(),
            POp::Range(s, v) => format!("range({s},{})", v.len()),
            POp::Batch(s, v, r) => format!("batch({s},{},{:?})", v.len(), r),
            POp::Meta(m) => format!("meta({})", m.len()),
            POp::Flush => "flush".into(),
            POp::Reset => "reset".into(),
            POp::Init(v) => format!("init({})", v.len()),
        }
    }
    fn kind(&self) -> &'static str {
        match self {
            POp::Set(..) => "set",
            POp::Delete(..) => "delete",
            POp::Append(..) => "append",
            POp::Range(..) => "range",
            POp::Batch(..) => "batch",
            POp::Meta(..) => "metadata",
            POp::Flush => "flush",
            POp::Reset => "reset",
            POp::Init(..) => "init",
        }
    }
    /// positions whose content is indeterminate if this operation fails half-way
    fn targets(&self, mark: usize) -> Vec<usize> {
        match self {
            POp::Set(i, _) | POp::Delete(i) => vec![*i],
            POp::Append(_) => vec![mark],
            POp::Range(s, v) => (*s..*s + v.len()).collect(),
            POp::Batch(s, v, r) => (*s..*s + v.len()).chain(r.iter().cloned()).collect(),
            _ => vec![],
        }
    }
}

pub fn cfg_json(path: &str, variant: usize) -> String {
    let inner = match variant % 6 {
        0 => format!(r#"{{"path": "{path}", "temporary": false, "cache_capacity": 150000, "flush_every_ms": 12000, "mode": "HighThroughput", "use_compression": false}}"#),
        1 => format!(r#"{{"path": "{path}", "temporary": false, "cache_capacity": 1024, "flush_every_ms": 1, "mode": "LowSpace"}}"#),
        2 => format!(r#"{{"path": "{path}", "temporary": false}}"#),
        3 => format!(r#"{{"path": "{path}", "temporary": false, "cache_capacity": 1073741824, "flush_every_ms": 50, "mode": "SomethingElse"}}"#),
        4 => format!(r#"{{"path": "{path}", "temporary": false, "cache_capacity": 100000000, "mode": "HighThroughput"}}"#),
        _ => format!(r#"{{"path": "{path}", "temporary": false, "cache_capacity": 5000000, "flush_every_ms": 7}}"#),
    };
    format!(r#"{{"tree_config": {inner}}}"#)
}

fn open(depth: usize, path: &str, variant: usize) -> Result<RLN, String> {
    match catch(|| RLN::new(depth, Cursor::new(cfg_json(path, variant)))) {
        Ok(Ok(r)) => Ok(r),
        Ok(Err(e)) => Err(format!("err: {}", e.to_string().lines().next().unwrap_or(""))),
        Err(p) => Err(format!("panic: {}", p.msg)),
    }
}

fn apply(r: &mut RLN, depth: usize, op: &POp) -> Result<Result<(), String>, Panicked> {
    catch(|| {
        let e = |x: color_eyre::Result<()>| x.map_err(|e| e.to_string().lines().next().unwrap_or("").to_string());
        match op {
            POp::Set(i, v) => e(r.set_leaf(*i, Cursor::new(enc_fr(v)))),
            POp::Delete(i) => e(r.delete_leaf(*i)),
            POp::Append(v) => e(r.set_next_leaf(Cursor::new(enc_fr(v)))),
            POp::Range(s, vs) => e(r.set_leaves_from(*s, Cursor::new(enc_vec_fr(vs)))),
            POp::Batch(s, vs, rm) => {
                let idx: Vec<u8> = rm.iter().map(|x| *x as u8).collect();
                e(r.atomic_operation(*s, Cursor::new(enc_vec_fr(vs)), Cursor::new(enc_vec_u8(&idx))))
            }
            POp::Meta(m) => e(r.set_metadata(m)),
            POp::Flush => e(r.flush()),
            POp::Reset => e(r.set_tree(depth)),
            POp::Init(vs) => e(r.init_tree_with_leaves(Cursor::new(enc_vec_fr(vs)))),
        }
    })
}

fn apply_model(m: &mut Model, op: &POp) {
    match op {
        POp::Set(i, v) => {
            m.set(*i, *v);
        }
        POp::Delete(i) => {
            m.delete(*i);
        }
        POp::Append(v) => {
            m.append(*v);
        }
        POp::Range(s, vs) => {
            m.write_range(*s, vs);
        }
        POp::Batch(s, vs, rm) => {
            m.batch(*s, vs, rm);
        }
        POp::Meta(b) => m.metadata = b.clone(),
        POp::Flush => {}
        POp::Reset => {
            let md = m.metadata.clone();
            m.reset();
            let _ = md; // a reset tree has no metadata
        }
        POp::Init(vs) => {
            m.reset();
            m.write_range(0, vs);
        }
    }
}

/// unique leaf values make every write identifiable after a crash
fn uniq(counter: &mut u64) -> Fr {
    *counter += 1;
    Fr::from(1_000_000u64 + *counter)
}

/// Mostly unique values (a read identifies the write it observed); now and then the default value itself, whose write
/// still has to raise the leaf count durably.
fn val(rng: &mut impl rand::RngCore, counter: &mut u64) -> Fr {
    if rng.gen_range(0..16) == 0 {
        Fr::from(0u64)
    } else {
        uniq(counter)
    }
}

pub fn gen_history(rng: &mut impl rand::RngCore, depth: usize, len: usize, with_reset: bool, counter: &mut u64) -> Vec<POp> {
    let cap = 1usize << depth;
    let lim = cap.min(200); // removals go through a u8 interface; bulk writes stay left (pmtree cost)
    let mut ops = vec![];
    let mut mark = 0usize;
    for _ in 0..len {
        let r = rng.gen_range(0..100);
        let op = match r {
            0..=24 => POp::Set(if rng.gen_bool(0.3) { rng.gen_range(0..cap) } else { rng.gen_range(0..lim) }, val(rng, counter)),
            25..=34 => POp::Delete(rng.gen_range(0..lim.min(mark.max(1)))),
            35..=49 => POp::Append(val(rng, counter)),
            50..=62 => {
                let n = rng.gen_range(1..5usize);
                let s = rng.gen_range(0..=(lim - n.min(lim)));
                POp::Range(s, (0..n).map(|_| val(rng, counter)).collect())
            }
            63..=72 => {
                if rng.gen_bool(0.5) {
                    // removals only
                    let k = rng.gen_range(1..4);
                    POp::Batch(0, vec![], (0..k).map(|_| rng.gen_range(0..lim)).collect())
                } else {
                    let n = rng.gen_range(1..4usize);
                    let s = rng.gen_range(0..=(lim - n.min(lim)));
                    let mut rm = vec![s];
                    if n > 1 && rng.gen_bool(0.5) {
                        rm.push(s + 1);
                    }
                    POp::Batch(s, (0..n).map(|_| uniq(counter)).collect(), rm)
                }
            }
            73..=80 => {
                // metadata values: fresh bytes of several lengths, the empty value (clears it) and a fixed value that
                // is written repeatedly (re-writing what may already be stored, also across a reopen)
                match rng.gen_range(0..8) {
                    0 => POp::Meta(vec![]),
                    1 => POp::Meta(b"same-metadata".to_vec()),
                    // values a storage layer could mistake for "nothing": all-zero bytes of several lengths (a zero
                    // counter, a zero field element), all-ones, zero-padded values
                    2 => POp::Meta(vec![0u8; [1usize, 8, 32, 33, 64][rng.gen_range(0..5)]]),
                    3 => match rng.gen_range(0..4) {
                        0 => POp::Meta(vec![0xffu8; [1usize, 8, 32][rng.gen_range(0..3)]]),
                        1 => POp::Meta([vec![0u8; 7], rand_bytes(rng, 3)].concat()),
                        2 => POp::Meta([rand_bytes(rng, 3), vec![0u8; 29]].concat()),
                        _ => {
                            let l = [4096usize, 70_000][rng.gen_range(0..2)];
                            POp::Meta(rand_bytes(rng, l))
                        }
                    },
                    _ => {
                        let l = [1usize, 8, 33, 200][rng.gen_range(0..4)];
                        POp::Meta(rand_bytes(rng, l))
                    }
                }
            }
            81..=93 => POp::Flush,
            94..=96 if with_reset => POp::Reset,
            97..=99 if with_reset => POp::Init((0..rng.gen_range(0..4usize)).map(|_| uniq(counter)).collect()),
            _ => POp::Append(uniq(counter)),
        };
        match &op {
            POp::Set(i, _) => mark = mark.max(i + 1),
            POp::Append(_) => mark = (mark + 1).min(cap),
            POp::Range(s, v) | POp::Batch(s, v, _) if !v.is_empty() => mark = mark.max(s + v.len()),
            POp::Reset => mark = 0,
            POp::Init(v) => mark = v.len(),
            _ => {}
        }
        ops.push(op);
    }
    ops
}

fn watch(m: &Model, extra: &[usize]) -> Vec<usize> {
    let cap = m.cap();
    if m.depth <= 6 {
        return (0..cap).collect();
    }
    let mut s: std::collections::BTreeSet<usize> = m.leaves.keys().cloned().collect();
    for x in extra {
        if *x < cap {
            s.insert(*x);
        }
    }
    for x in [0, 1, cap / 2, cap - 1, m.mark.min(cap - 1)] {
        s.insert(x);
    }
    s.into_iter().take(400).collect()
}

struct Obs {
    root: Fr,
    count: usize,
    leaves: Vec<(usize, Option<Fr>)>,
    meta: Vec<u8>,
}

fn observe(r: &mut RLN, positions: &[usize]) -> Result<Obs, Panicked> {
    catch(|| {
        let mut o = vec![];
        r.get_root(&mut o).unwrap();
        let root = dec_frs(&o, 1).unwrap()[0];
        let count = r.leaves_set();
        let leaves = positions
            .iter()
            .map(|p| {
                let mut b = vec![];
                (*p, r.get_leaf(*p, &mut b).ok().and_then(|_| dec_frs(&b, 1)).map(|v| v[0]))
            })
            .collect();
        let mut meta = vec![];
        let _ = r.get_metadata(&mut meta);
        Obs { root, count, leaves, meta }
    })
}

fn compare(o: &Obs, m: &Model) -> Option<String> {
    if o.root != m.root() {
        return Some("root".into());
    }
    if o.count != m.mark {
        return Some("leaf-count".into());
    }
    for (p, v) in &o.leaves {
        if *v != Some(m.get(*p)) {
            return Some("leaf".into());
        }
    }
    if o.meta != m.metadata {
        return Some("metadata".into());
    }
    None
}

fn fresh_dir(tag: &str) -> String {
    let d = std::env::temp_dir().join(format!("c16-{}-{}", std::process::id(), tag));
    let _ = std::fs::remove_dir_all(&d);
    d.to_string_lossy().to_string()
}

// ---------------------------------------------------------------------------------------------
// (A) reopen monitor
// ---------------------------------------------------------------------------------------------

fn reopen_monitor(rep: &mut Rep, seed: u64, n_hist: usize) {
    let mut rng = rng_for(seed, "c16-reopen");
    let mut counter = 0u64;
    let path_styles = ["plain", "nested/deeper/db", "with space", "unicodé-пут-路径", "relative:rel-db", "relative:rel/nested/db", "relative:./dot/db"];
    // relative locations are resolved against the working directory: a scratch one, so that nothing is left behind
    let cwd = fresh_dir("cwd");
    let _ = std::fs::create_dir_all(&cwd);
    if std::env::set_current_dir(&cwd).is_err() {
        rep.inconclusive("cannot change into a scratch working directory".to_string());
    }
    for h in 0..n_hist {
        let depth = [3usize, 5, 8, 20, 4, 20][h % 6];
        let variant = h % 6;
        let base = fresh_dir(&format!("reopen{h}"));
        let style = path_styles[h % path_styles.len()];
        // (a relative location that does not exist yet, as a user would write it in a configuration file)
        let path = match style.strip_prefix("relative:") {
            Some(rel) => {
                let (head, tail) = rel.strip_prefix("./").map(|t| ("./", t)).unwrap_or(("", rel));
                format!("{head}h{h}-{tail}")
            }
            None => format!("{}/{}", base, style),
        };
        let with_reset = h % 5 == 4;
        let ops = gen_history(&mut rng, depth, if depth == 20 { 24 } else { 40 }, with_reset, &mut counter);
        let mut m = Model::new(depth, poseidon_h, Fr::from(0u64));
        let mut slot: Option<RLN> = match open(depth, &path, variant) {
            Ok(r) => Some(r),
            Err(e) => {
                rep.violation("open:persistent-config-refused", json!({"path_style": path_styles[h % path_styles.len()], "variant": variant, "error": e}));
                continue;
            }
        };
        let mut since_reset = false;
        let mut done: Vec<String> = vec![];
        let mut reopen_at: Vec<usize> = (0..3).map(|_| rng.gen_range(1..=ops.len())).collect();
        reopen_at.push(ops.len());
        let mut diverged = false;
        for (k, op) in ops.iter().enumerate() {
            let r = slot.as_mut().unwrap();
            let res = apply(r, depth, op);
            done.push(op.show());
            match res {
                Ok(Ok(())) => apply_model(&mut m, op),
                // init_tree_with_leaves is documented as a reset followed by a write: when the write part is refused
                // (e.g. no leaves given) the reset has already happened
                Ok(Err(_)) if matches!(op, POp::Init(_)) => m.reset(),
                Ok(Err(_)) => {} // refused (e.g. delete above the mark): state must be unchanged, checked below
                Err(p) => {
                    rep.violation(format!("{}:panic:{}", op.kind(), p.file()), json!({"history": done, "panic": p.msg, "depth": depth}));
                    diverged = true;
                    break;
                }
            }
            if matches!(op, POp::Reset | POp::Init(_)) {
                since_reset = true;
            }
            rep.ev();
            if reopen_at.contains(&(k + 1)) {
                // acknowledged flush -> drop -> reopen
                let fl = apply(r, depth, &POp::Flush);
                if !matches!(fl, Ok(Ok(()))) {
                    rep.violation("flush:failed-without-fault", json!({"history": done, "result": format!("{:?}", fl.map_err(|p| p.msg))}));
                    diverged = true;
                    break;
                }
                slot = None;
                // the database must be where it was configured to be
                if !since_reset && !std::path::Path::new(&path).exists() {
                    rep.violation("location:nothing-at-the-configured-path-after-flush", json!({"path_style": style, "path": path, "variant": variant}));
                    diverged = true;
                    break;
                }
                slot = match open(depth, &path, variant) {
                    Ok(r) => Some(r),
                    Err(e) => {
                        rep.violation("reopen:failed", json!({"history": done, "error": e, "variant": variant}));
                        diverged = true;
                        break;
                    }
                };
                let pos = watch(&m, &[]);
                rep.ev();
                rep.stratum(format!("reopen|d{depth}|variant{variant}|path={}|reset={since_reset}|mark={}", path_styles[h % path_styles.len()], m.mark.min(9)));
                match observe(slot.as_mut().unwrap(), &pos) {
                    Ok(o) => {
                        if let Some(what) = compare(&o, &m) {
                            let sig = if since_reset { format!("reopen-after-reset:{what}-differs") } else { format!("reopen:{what}-differs") };
                            rep.violation(sig, json!({"history": done, "depth": depth, "variant": variant, "model_count": m.mark, "reopened_count": o.count, "model_root": fr_s(&m.root()), "reopened_root": fr_s(&o.root)}));
                            diverged = true;
                            break;
                        }
                        rep.count("reopen_cycles_equal_to_model");
                    }
                    Err(p) => {
                        rep.violation(format!("reopen:observer-panic:{}", p.file()), json!({"history": done, "panic": p.msg}));
                        diverged = true;
                        break;
                    }
                }
                since_reset = false;
                done.push("flush+drop+reopen".into());
                // first update of the new session: clear or re-write the metadata (an update that equals what an empty
                // in-memory copy would suggest is already there), then check it sticks across another reopen
                if rng.gen_range(0..3) == 0 {
                    let op2 = if rng.gen_bool(0.5) { POp::Meta(vec![]) } else { POp::Meta(m.metadata.clone()) };
                    if let Ok(Ok(())) = apply(slot.as_mut().unwrap(), depth, &op2) {
                        apply_model(&mut m, &op2);
                    }
                    done.push(op2.show());
                    let _ = apply(slot.as_mut().unwrap(), depth, &POp::Flush);
                    drop(slot.take());
                    slot = open(depth, &path, variant).ok();
                    if let Some(r3) = slot.as_mut() {
                        rep.ev();
                        if let Ok(o) = observe(r3, &watch(&m, &[])) {
                            if let Some(what) = compare(&o, &m) {
                                rep.violation(format!("reopen:{what}-differs"), json!({"history": done, "depth": depth, "note": "after a metadata update as the first operation of a reopened session"}));
                                diverged = true;
                                break;
                            }
                        }
                    } else {
                        rep.violation("reopen:failed", json!({"history": done}));
                        diverged = true;
                        break;
                    }
                    done.push("flush+drop+reopen".into());
                }
            } else if k % 5 == 4 {
                // the (possibly reopened) tree keeps following the model
                let pos = watch(&m, &[]);
                if let Ok(o) = observe(r, &pos) {
                    if let Some(what) = compare(&o, &m) {
                        // metadata of a reset tree / batch shapes are other properties' subjects: only state here
                        if what != "metadata" || !since_reset {
                            let sig = if since_reset { format!("after-reset:{what}-differs") } else { format!("continue:{what}-differs-from-model") };
                            rep.violation(sig, json!({"history": done, "depth": depth, "last_op": op.show()}));
                            diverged = true;
                            break;
                        }
                    }
                }
            }
        }
        let _ = diverged;
        drop(slot);
        let _ = std::fs::remove_dir_all(&base);
    }
    // configuration corner cases
    let base = fresh_dir("cfgcorner");
    let p1 = format!("{base}/exists");
    let _ = std::fs::create_dir_all(&p1);
    rep.ev();
    rep.stratum("config|temporary-true-on-existing-path");
    let cfg = format!(r#"{{"tree_config": {{"path": "{p1}", "temporary": true}}}}"#);
    match catch(|| RLN::new(3, Cursor::new(cfg))) {
        Ok(Ok(_)) => rep.violation("config:temporary-on-existing-path-accepted", json!({"path": p1})),
        Ok(Err(_)) => rep.count("temporary_on_existing_path_refused"),
        Err(p) => rep.violation(format!("config:panic:{}", p.file()), json!({"panic": p.msg})),
    }
    rep.ev();
    rep.stratum("config|use_compression-true");
    let p2 = format!("{base}/compr");
    let cfg = format!(r#"{{"tree_config": {{"path": "{p2}", "temporary": false, "use_compression": true}}}}"#);
    match catch(|| RLN::new(3, Cursor::new(cfg))) {
        Ok(Ok(_)) => rep.count("use_compression_accepted"),
        Ok(Err(_)) => rep.count("use_compression_refused(sled built without compression)"),
        Err(p) => rep.violation(format!("config:use_compression:panic:{}", p.file()), json!({"panic": p.msg})),
    }
    let _ = std::fs::remove_dir_all(&base);
}

// ---------------------------------------------------------------------------------------------
// (B) fault enumeration
// ---------------------------------------------------------------------------------------------

fn fault_enumeration(rep: &mut Rep, seed: u64, n_hist: usize, max_positions_per_hist: usize) {
    let mut rng = rng_for(seed, "c16-faults");
    let mut counter = 0u64;
    let mut total_positions = 0u64;
    let mut fired = 0u64;
    for h in 0..n_hist {
        let depth = [3usize, 4, 5, 8, 20][h % 5];
        let variant = [4usize, 0, 2, 4, 4][h % 5];
        let ops = gen_history(&mut rng, depth, if depth == 20 { 8 } else { 14 }, false, &mut counter);
        // --- unarmed run: count storage operations per API call
        let base = fresh_dir(&format!("fault{h}-unarmed"));
        let path = format!("{base}/db");
        hooks::FAIL_AFTER.store(-1, Ordering::SeqCst);
        let mut r = match open(depth, &path, variant) {
            Ok(r) => r,
            Err(e) => {
                rep.inconclusive(format!("cannot open: {e}"));
                continue;
            }
        };
        let ops0 = hooks::OPS_SEEN.load(Ordering::SeqCst);
        let mut spans: Vec<(u64, u64)> = vec![];
        let mut unarmed: Vec<bool> = vec![];
        for op in &ops {
            let lo = hooks::OPS_SEEN.load(Ordering::SeqCst) - ops0;
            let res = apply(&mut r, depth, op);
            let hi = hooks::OPS_SEEN.load(Ordering::SeqCst) - ops0;
            spans.push((lo, hi));
            unarmed.push(matches!(res, Ok(Ok(()))));
        }
        drop(r);
        let _ = std::fs::remove_dir_all(&base);
        let n_ops = spans.last().map(|s| s.1).unwrap_or(0);
        rep.countn("storage_operations_in_unarmed_runs", n_ops);
        // --- armed runs
        let ks: Vec<u64> = if (n_ops as usize) <= max_positions_per_hist {
            (0..n_ops).collect()
        } else {
            let mut v: Vec<u64> = (0..max_positions_per_hist).map(|_| rng.gen_range(0..n_ops)).collect();
            // always the first and last storage operation of every API call
            for (lo, hi) in &spans {
                if hi > lo && v.len() < max_positions_per_hist * 2 {
                    v.push(*lo);
                    v.push(*hi - 1);
                }
            }
            v.sort();
            v.dedup();
            v
        };
        for k in ks {
            total_positions += 1;
            let base = fresh_dir(&format!("fault{h}-k{k}"));
            let path = format!("{base}/db");
            hooks::FAIL_AFTER.store(-1, Ordering::SeqCst);
            let mut r = match open(depth, &path, variant) {
                Ok(r) => r,
                Err(e) => {
                    rep.inconclusive(format!("cannot open: {e}"));
                    continue;
                }
            };
            let mut m = Model::new(depth, poseidon_h, Fr::from(0u64));
            let fired0 = hooks::FAULTS_FIRED.load(Ordering::SeqCst);
            // arm: k storage operations may still succeed
            hooks::FAIL_AFTER.store(k as i64, Ordering::SeqCst);
            let mut hit: Option<usize> = None;
            let mut done: Vec<String> = vec![];
            for (j, op) in ops.iter().enumerate() {
                let res = apply(&mut r, depth, op);
                done.push(op.show());
                let fired_now = hooks::FAULTS_FIRED.load(Ordering::SeqCst) > fired0;
                if fired_now {
                    hit = Some(j);
                    rep.ev();
                    rep.stratum(format!("fault|{}|d{depth}|offset-in-call={}", op.kind(), (k - spans[j].0).min(25)));
                    match res {
                        Ok(Err(_)) => rep.count("faulted_calls_reporting_error"),
                        Ok(Ok(())) => rep.violation(format!("fault-in-{}:reported-success", op.kind()), json!({"history": done, "storage_op": k, "offset_in_call": k - spans[j].0, "depth": depth})),
                        Err(p) => rep.violation(format!("fault-in-{}:panic:{}", op.kind(), p.file()), json!({"history": done, "storage_op": k, "panic": p.msg})),
                    }
                    break;
                } else {
                    // before the fault every call keeps its unarmed result
                    let ok = matches!(res, Ok(Ok(())));
                    if ok != unarmed[j] {
                        rep.violation("replay:result-differs-from-unarmed-run", json!({"history": done, "op": j}));
                    }
                    if ok {
                        apply_model(&mut m, op);
                    }
                }
            }
            hooks::FAIL_AFTER.store(-1, Ordering::SeqCst);
            let j = match hit {
                Some(j) => j,
                None => {
                    rep.inconclusive(format!("fault position {k} did not fire (history {h})"));
                    drop(r);
                    let _ = std::fs::remove_dir_all(&base);
                    continue;
                }
            };
            fired += 1;
            // model state acknowledged before the failed call, and after it if it had succeeded
            let before = m.clone();
            let mut after = m.clone();
            apply_model(&mut after, &ops[j]);
            let targets = ops[j].targets(before.mark);
            // every other position: the caller repeats the refused call (faults are off now). If the repetition is
            // acknowledged, everything about it must be there after flush + reopen, root included: the first
            // attempt may have left any part of its writes behind.
            // (an append is not repeated: whether the refused attempt already took the slot is not defined, so a
            // repetition may legitimately land one position further)
            if k % 2 == 1 && !matches!(ops[j], POp::Flush | POp::Append(_)) {
                let rr = apply(&mut r, depth, &ops[j]);
                let fl = apply(&mut r, depth, &POp::Flush);
                if matches!(rr, Ok(Ok(()))) && matches!(fl, Ok(Ok(()))) {
                    drop(r);
                    rep.ev();
                    rep.stratum(format!("fault-then-retry|{}|d{depth}|offset-in-call={}", ops[j].kind(), (k - spans[j].0).min(25)));
                    match open(depth, &path, variant) {
                        Ok(mut r2) => {
                            let pos = watch(&after, &targets);
                            match observe(&mut r2, &pos) {
                                Ok(o) => {
                                    let wrong: Vec<usize> = o.leaves.iter().filter(|(p, v)| *v != Some(after.get(*p))).map(|x| x.0).take(5).collect();
                                    if !wrong.is_empty() {
                                        rep.violation(format!("retry-after-fault-in-{}:acknowledged-leaf-lost", ops[j].kind()), json!({"history": done, "storage_op": k, "positions": wrong, "depth": depth}));
                                    }
                                    if o.count != after.mark {
                                        // the one storage write that persists a raised leaf count is the last one of its call
                                        let at_count_persist = k + 1 == spans[j].1 && after.mark > before.mark && o.count == before.mark;
                                        let sig = if at_count_persist {
                                            format!("retry-after-fault-at-leaf-count-persist:{}:acknowledged-leaf-count-lost", ops[j].kind())
                                        } else {
                                            format!("retry-after-fault-in-{}:leaf-count-differs", ops[j].kind())
                                        };
                                        rep.violation(sig, json!({"history": done, "storage_op": k, "offset_in_call": k - spans[j].0, "reopened_count": o.count, "model_count": after.mark, "count_before_the_call": before.mark}));
                                    }
                                    if o.meta != after.metadata {
                                        rep.violation(format!("retry-after-fault-in-{}:metadata-differs", ops[j].kind()), json!({"history": done, "storage_op": k}));
                                    }
                                    if wrong.is_empty() && o.count == after.mark && o.root != after.root() {
                                        rep.violation(format!("retry-after-fault-in-{}:root-differs", ops[j].kind()), json!({"history": done, "storage_op": k, "offset_in_call": k - spans[j].0, "depth": depth, "reopened_root": fr_s(&o.root), "model_root": fr_s(&after.root())}));
                                    }
                                    rep.count("post_retry_reopens_checked");
                                }
                                Err(p) => rep.violation(format!("after-fault:observer-panic:{}", p.file()), json!({"history": done, "panic": p.msg})),
                            }
                        }
                        Err(e) => rep.violation("after-fault:reopen-failed", json!({"history": done, "storage_op": k, "error": e})),
                    }
                } else {
                    rep.count("retry_after_fault_not_acknowledged");
                    drop(r);
                }
                let _ = std::fs::remove_dir_all(&base);
                continue;
            }
            // disarm -> flush -> drop -> reopen
            let fl = apply(&mut r, depth, &POp::Flush);
            if !matches!(fl, Ok(Ok(()))) {
                rep.violation("flush-after-fault:failed", json!({"history": done, "result": format!("{:?}", fl.map_err(|p| p.msg))}));
            }
            drop(r);
            rep.ev();
            match open(depth, &path, variant) {
                Ok(mut r2) => {
                    let pos = watch(&before, &targets);
                    match observe(&mut r2, &pos) {
                        Ok(o) => {
                            let lost: Vec<usize> = o.leaves.iter().filter(|(p, v)| !targets.contains(p) && *v != Some(before.get(*p))).map(|x| x.0).take(5).collect();
                            if !lost.is_empty() {
                                rep.violation(format!("after-fault-in-{}:acknowledged-leaf-lost", ops[j].kind()), json!({"history": done, "storage_op": k, "positions": lost, "depth": depth}));
                            }
                            let (lo_c, hi_c) = (before.mark.min(after.mark), before.mark.max(after.mark));
                            if o.count < lo_c || o.count > hi_c {
                                rep.violation(format!("after-fault-in-{}:leaf-count-out-of-range", ops[j].kind()), json!({"history": done, "storage_op": k, "reopened_count": o.count, "acknowledged_count": before.mark, "count_if_completed": after.mark}));
                            }
                            if !matches!(ops[j], POp::Meta(_)) && o.meta != before.metadata {
                                rep.violation(format!("after-fault-in-{}:metadata-lost", ops[j].kind()), json!({"history": done, "storage_op": k}));
                            }
                            rep.count("post_fault_reopens_checked");
                        }
                        Err(p) => rep.violation(format!("after-fault:observer-panic:{}", p.file()), json!({"history": done, "panic": p.msg})),
                    }
                }
                Err(e) => rep.violation("after-fault:reopen-failed", json!({"history": done, "storage_op": k, "error": e})),
            }
            let _ = std::fs::remove_dir_all(&base);
        }
    }
    rep.countn("fault_positions_total", total_positions);
    rep.countn("fault_positions_fired", fired);
}

// ---------------------------------------------------------------------------------------------
// (C) crash points (child process) and (D) hostile reopen
// ---------------------------------------------------------------------------------------------

/// child: `vh c16-child <path> <variant> <depth> <seed> <n_ops>`: performs the seeded history, flushes every
/// few operations and prints "ACK <ops applied>" after each successful flush; then keeps writing.
pub fn child(args: &[String]) -> i32 {
    let path = &args[2];
    let variant: usize = args[3].parse().unwrap();
    let depth: usize = args[4].parse().unwrap();
    let seed: u64 = args[5].parse().unwrap();
    let n: usize = args[6].parse().unwrap();
    // pause after every acknowledgement (ms): gives the parent a window to kill the process exactly at the
    // acknowledged, quiescent point; 0 = keep going (the kill then lands in the middle of later work)
    let pause_ms: u64 = args.get(7).and_then(|s| s.parse().ok()).unwrap_or(0);
    let ops = crash_history(seed, depth, n);
    let mut r = match open(depth, path, variant) {
        Ok(r) => r,
        Err(_) => return 3,
    };
    let out = std::io::stdout();
    for (k, op) in ops.iter().enumerate() {
        let res = apply(&mut r, depth, op);
        if matches!(op, POp::Flush) && matches!(res, Ok(Ok(()))) {
            {
                let mut o = out.lock();
                let _ = writeln!(o, "ACK {}", k + 1);
                let _ = o.flush();
            }
            if pause_ms > 0 {
                std::thread::sleep(std::time::Duration::from_millis(pause_ms));
            }
        }
    }
    let mut o = out.lock();
    let _ = writeln!(o, "END");
    let _ = o.flush();
    // keep the handle (and the storage lock) for a while: the parent kills us
    std::thread::sleep(std::time::Duration::from_secs(30));
    0
}

pub fn crash_history(seed: u64, depth: usize, n: usize) -> Vec<POp> {
    let mut rng = rng_for(seed, "c16-crash-history");
    let mut counter = 0u64;
    let mut ops = vec![];
    let cap = 1usize << depth;
    let lim = cap.min(200);
    // every fourth history starts on a tree that has never held a leaf: metadata only, acknowledged twice
    if seed % 4 == 3 {
        ops.push(POp::Meta(b"metadata of an empty tree".to_vec()));
        ops.push(POp::Flush);
        ops.push(POp::Meta(rand_bytes(&mut rng, 9)));
        ops.push(POp::Flush);
    }
    // first segment: populate, so that later segments can overwrite / remove existing positions
    ops.push(POp::Range(0, (0..lim.min(24)).map(|_| uniq(&mut counter)).collect()));
    ops.push(POp::Meta(b"initial".to_vec()));
    ops.push(POp::Flush);
    let mut seg = 0usize;
    while ops.len() < n {
        // segments between two acknowledged flushes are of one kind each, so that a flush that is only correct
        // after certain kinds of update (single writes, batch writes, metadata) is caught by the kill that follows
        match seg % 5 {
            0 => ops.extend(gen_history(&mut rng, depth, 8, false, &mut counter).into_iter().filter(|o| !matches!(o, POp::Flush))),
            1 => {
                // batch-only, not growing the leaf count: overwrite existing ranges, remove several indices
                for _ in 0..rng.gen_range(1..4) {
                    let nn = rng.gen_range(2..6usize);
                    let s0 = rng.gen_range(0..lim.min(24) - nn.min(lim.min(24) - 1));
                    ops.push(POp::Range(s0, (0..nn).map(|_| uniq(&mut counter)).collect()));
                }
                if rng.gen_bool(0.6) {
                    ops.push(POp::Batch(0, vec![], vec![rng.gen_range(0..8), rng.gen_range(8..16), rng.gen_range(16..lim.min(24))]));
                }
            }
            2 => {
                // single-leaf updates only
                for _ in 0..rng.gen_range(1..5) {
                    ops.push(POp::Set(rng.gen_range(0..lim), uniq(&mut counter)));
                }
            }
            3 => ops.push(POp::Meta(rand_bytes(&mut rng, 20))),
            _ => {
                // one batch then one delete
                ops.push(POp::Range(rng.gen_range(0..8), (0..3).map(|_| uniq(&mut counter)).collect()));
                ops.push(POp::Delete(rng.gen_range(0..8)));
            }
        }
        ops.push(POp::Flush);
        seg += 1;
        // sometimes work right after the acknowledged flush (in flight when the kill arrives)
        if seg % 3 == 0 {
            ops.push(POp::Range(30.min(cap - 4), (0..4).map(|_| uniq(&mut counter)).collect()));
        }
    }
    ops.truncate(n);
    ops
}

/// holder: `vh c16-hold <path> <ms>`: opens the database, prints HOLDING, keeps it open for <ms>, exits
pub fn holder(args: &[String]) -> i32 {
    let path = &args[2];
    let ms: u64 = args[3].parse().unwrap();
    let db = sled::Config::new().path(path).open();
    match db {
        Ok(_db) => {
            println!("HOLDING");
            let _ = std::io::stdout().flush();
            std::thread::sleep(std::time::Duration::from_millis(ms));
            0
        }
        Err(e) => {
            println!("FAILED {e}");
            4
        }
    }
}

/// child: `vh c16-fsize <path> <variant> <depth> <seed> <n_ops> <extra_bytes>`: like c16-child, but after the first
/// acknowledged flush the process limits the size any file may grow to (RLIMIT_FSIZE = current size of the largest
/// database file + extra_bytes, SIGXFSZ ignored): from then on sled's writes really fail (EFBIG). Prints one line
/// per operation: "OP <k> ok|err|panic" and "ACK <k>" after every flush that returned Ok.
pub fn fsize_child(args: &[String]) -> i32 {
    let path = &args[2];
    let variant: usize = args[3].parse().unwrap();
    let depth: usize = args[4].parse().unwrap();
    let seed: u64 = args[5].parse().unwrap();
    let n: usize = args[6].parse().unwrap();
    let extra: u64 = args[7].parse().unwrap();
    install_panic_hook();
    let ops = crash_history(seed, depth, n);
    let mut r = match open(depth, path, variant) {
        Ok(r) => r,
        Err(_) => return 3,
    };
    let out = std::io::stdout();
    let mut limited = false;
    for (k, op) in ops.iter().enumerate() {
        let res = apply(&mut r, depth, op);
        let tag = match &res {
            Ok(Ok(())) => "ok",
            Ok(Err(_)) => "err",
            Err(_) => "panic",
        };
        {
            let mut o = out.lock();
            let _ = writeln!(o, "OP {} {}", k + 1, tag);
            if matches!(op, POp::Flush) && tag == "ok" {
                let _ = writeln!(o, "ACK {}", k + 1);
            }
            let _ = o.flush();
        }
        if matches!(op, POp::Flush) && !limited {
            // largest file under the database directory
            let mut largest = 0u64;
            if let Ok(rd) = std::fs::read_dir(path) {
                for e in rd.flatten() {
                    if let Ok(md) = e.metadata() {
                        largest = largest.max(md.len());
                    }
                }
            }
            unsafe {
                libc::signal(libc::SIGXFSZ, libc::SIG_IGN);
                let lim = libc::rlimit { rlim_cur: largest + extra, rlim_max: largest + extra };
                libc::setrlimit(libc::RLIMIT_FSIZE, &lim);
            }
            limited = true;
            let mut o = out.lock();
            let _ = writeln!(o, "LIMIT {}", largest + extra);
            let _ = o.flush();
        }
    }
    // bulk writes large enough to outgrow sled's preallocated segment: these must hit the file size limit
    let bulk: usize = std::env::var("C16_BULK").ok().and_then(|s| s.parse().ok()).unwrap_or(0);
    let cap = 1usize << depth;
    for j in 0..bulk {
        let nleaves = 3000.min(cap);
        let start = (j * nleaves) % (cap - nleaves + 1);
        let leaves: Vec<Fr> = (0..nleaves).map(|i| Fr::from((7_000_000 + j * 10_000 + i) as u64)).collect();
        let r1 = apply(&mut r, depth, &POp::Range(start, leaves));
        let r2 = apply(&mut r, depth, &POp::Flush);
        let t = |x: &Result<Result<(), String>, Panicked>| match x {
            Ok(Ok(())) => "ok",
            Ok(Err(_)) => "err",
            Err(_) => "panic",
        };
        let mut o = out.lock();
        let _ = writeln!(o, "BULK {} {} {} flush {}", j, start, t(&r1), t(&r2));
        let _ = o.flush();
    }
    let mut o = out.lock();
    let _ = writeln!(o, "END");
    let _ = o.flush();
    0
}

fn crash_points(rep: &mut Rep, seed: u64, n_kills: usize) {
    let me = match std::env::var("VH_SELF").or_else(|_| std::env::current_exe().map(|p| p.to_string_lossy().to_string())) {
        Ok(m) => m,
        Err(_) => {
            rep.inconclusive("cannot locate own executable for child processes".to_string());
            return;
        }
    };
    let mut rng = rng_for(seed, "c16-crash");
    let mut quiescent_no = 0usize;
    for kx in 0..n_kills {
        let hseed = seed * 1000 + kx as u64;
        let n_ops = 70;
        // two out of three kills hit a quiescent process right after an acknowledgement, the others land mid-work
        let pause_ms: u64 = if kx % 3 == 2 { 0 } else { 60 };
        // quiescent kills enumerate (kind of the segment that the acknowledged flush closes) x (depth) x
        // (configuration in which only the explicit flush makes data durable within the window) instead of sampling
        // them; the seed offsets the enumeration
        let (depth, variant, planned_ack) = if pause_ms > 0 {
            let q = quiescent_no + seed as usize;
            quiescent_no += 1;
            // (histories with hseed % 4 == 3 begin with two metadata-only acknowledgements on an empty tree)
            ([5usize, 8, 20][q % 3], [0usize, 2, 4, 0][(q / 5) % 4], Some(if hseed % 4 == 3 { 1 + q % 2 } else { 2 + q % 5 }))
        } else {
            ([5usize, 8, 20][kx % 3], [0usize, 2, 4, 0, 1, 3, 5, 2][kx % 8], None)
        };
        let base = fresh_dir(&format!("crash{kx}"));
        let path = format!("{base}/db");
        let mut ch = match std::process::Command::new(&me)
            .args(["c16-child", &path, &variant.to_string(), &depth.to_string(), &hseed.to_string(), &n_ops.to_string(), &pause_ms.to_string()])
            .stdout(std::process::Stdio::piped())
            .stderr(std::process::Stdio::null())
            .spawn()
        {
            Ok(c) => c,
            Err(e) => {
                rep.inconclusive(format!("spawn: {e}"));
                continue;
            }
        };
        let mut rd = BufReader::new(ch.stdout.take().unwrap());
        // wait for the target ACK, then kill after a random delay
        let target_ack = planned_ack.unwrap_or_else(|| rng.gen_range(1..=7usize));
        let mut acked = 0usize;
        let mut seen = 0usize;
        let mut line = String::new();
        loop {
            line.clear();
            match rd.read_line(&mut line) {
                Ok(0) | Err(_) => break,
                Ok(_) => {
                    if let Some(n) = line.trim().strip_prefix("ACK ") {
                        acked = n.parse().unwrap_or(acked);
                        seen += 1;
                        if seen >= target_ack {
                            break;
                        }
                    } else if line.trim() == "END" {
                        break;
                    }
                }
            }
        }
        let delay_ms = if pause_ms > 0 { [0u64, 1, 5, 20][rng.gen_range(0..4)] } else { [0u64, 0, 1, 3, 10, 40, 120][rng.gen_range(0..7)] };
        std::thread::sleep(std::time::Duration::from_millis(delay_ms));
        unsafe {
            libc::kill(ch.id() as i32, libc::SIGKILL);
        }
        // drain further ACKs that were already written before the kill landed
        loop {
            line.clear();
            match rd.read_line(&mut line) {
                Ok(0) | Err(_) => break,
                Ok(_) => {
                    if let Some(n) = line.trim().strip_prefix("ACK ") {
                        acked = n.parse().unwrap_or(acked);
                    }
                }
            }
        }
        let _ = ch.wait();
        if acked == 0 {
            rep.inconclusive("child produced no acknowledged flush".to_string());
            let _ = std::fs::remove_dir_all(&base);
            continue;
        }
        // model states from the acknowledged point to the end of the history
        let ops = crash_history(hseed, depth, n_ops);
        let mut m = Model::new(depth, poseidon_h, Fr::from(0u64));
        let mut states: Vec<Model> = vec![];
        for (k, op) in ops.iter().enumerate() {
            // mirror the child's success criterion with the model's own rejection rules
            apply_model(&mut m, op);
            if k + 1 >= acked {
                states.push(m.clone());
            }
        }
        rep.ev();
        rep.stratum(format!("crash|d{depth}|variant{variant}|delay={delay_ms}ms|acks={}|{}", seen.min(8), if pause_ms > 0 { "quiescent" } else { "in-flight" }));
        if pause_ms > 0 && hseed % 4 == 3 && seen <= 2 {
            rep.stratum(format!("crash-quiescent|after-metadata-on-a-tree-without-leaves|ack{seen}|d{depth}"));
        }
        if pause_ms > 0 && seen >= 2 {
            if hseed % 4 != 3 {
                rep.stratum(format!("crash-quiescent|after-segment-kind={}|d{depth}", ["mixed", "batch-only-not-growing", "single-leaf-only", "metadata-only", "batch-then-delete"][(seen - 2) % 5]));
            }
        }
        let t0 = std::time::Instant::now();
        match open(depth, &path, variant) {
            Ok(mut r) => {
                let at_ack = &states[0];
                let last = states.last().unwrap();
                let pos = watch(last, &[]);
                match observe(&mut r, &pos) {
                    Ok(o) => {
                        let mut bad = vec![];
                        for (p, v) in &o.leaves {
                            // the value must be one the position held at or after the acknowledged flush
                            if !states.iter().any(|s| Some(s.get(*p)) == *v) {
                                bad.push(*p);
                            }
                        }
                        if !bad.is_empty() {
                            rep.violation("crash:acknowledged-update-lost", json!({"depth": depth, "variant": variant, "acked_ops": acked, "positions": bad.iter().take(5).collect::<Vec<_>>(), "delay_ms": delay_ms}));
                        }
                        let (lo, hi) = (states.iter().map(|s| s.mark).min().unwrap(), states.iter().map(|s| s.mark).max().unwrap());
                        if o.count < lo.min(at_ack.mark) || o.count > hi {
                            rep.violation("crash:leaf-count-out-of-range", json!({"reopened": o.count, "at_ack": at_ack.mark, "max_later": hi}));
                        }
                        if !states.iter().any(|s| s.metadata == o.meta) {
                            rep.violation("crash:metadata-lost", json!({"acked_ops": acked}));
                        }
                        rep.count("crash_recoveries_checked");
                        rep.countn("reopen_after_kill_ms_total", t0.elapsed().as_millis() as u64);
                    }
                    Err(p) => rep.violation(format!("crash:observer-panic:{}", p.file()), json!({"panic": p.msg})),
                }
            }
            Err(e) => rep.violation("crash:reopen-failed", json!({"error": e, "depth": depth, "variant": variant})),
        }
        let _ = std::fs::remove_dir_all(&base);
    }
}

/// (E) real I/O failures: a writer child lowers RLIMIT_FSIZE after its first acknowledged flush, so sled's writes
/// fail with EFBIG from then on. Whatever the child reported as successful *and* covered by a successful flush must
/// be readable after reopening without the limit; no operation may panic; the child must not die.
fn os_level_faults(rep: &mut Rep, seed: u64, n: usize) {
    let me = match std::env::var("VH_SELF").or_else(|_| std::env::current_exe().map(|p| p.to_string_lossy().to_string())) {
        Ok(m) => m,
        Err(_) => return,
    };
    for k in 0..n {
        let depth = 20usize;
        let variant = [4usize, 0, 2][k % 3];
        let extra = [0u64, 200_000, 1_500_000][k % 3];
        let hseed = seed * 77 + k as u64;
        let n_ops = 24;
        let bulk = 8usize;
        let base = fresh_dir(&format!("fsize{k}"));
        let path = format!("{base}/db");
        let out = std::process::Command::new(&me)
            .args(["c16-fsize", &path, &variant.to_string(), &depth.to_string(), &hseed.to_string(), &n_ops.to_string(), &extra.to_string()])
            .env("C16_BULK", bulk.to_string())
            .output();
        let out = match out {
            Ok(o) => o,
            Err(e) => {
                rep.inconclusive(format!("spawn: {e}"));
                continue;
            }
        };
        let text = String::from_utf8_lossy(&out.stdout).to_string();
        rep.ev();
        rep.stratum(format!("os-fault|variant{variant}|extra={extra}"));
        if !out.status.success() || !text.contains("END") {
            rep.violation("os-fault:writer-process-died", json!({"status": format!("{:?}", out.status), "stdout_tail": text.chars().rev().take(300).collect::<String>().chars().rev().collect::<String>()}));
            let _ = std::fs::remove_dir_all(&base);
            continue;
        }
        // replay what the child reported
        let ops = crash_history(hseed, depth, n_ops);
        let mut m = Model::new(depth, poseidon_h, Fr::from(0u64));
        let mut acked = m.clone(); // model at the last flush that returned Ok
        let mut later: Vec<Model> = vec![]; // states after operations reported ok since then
        let mut failed_ops = 0u64;
        let mut panics = 0u64;
        for line in text.lines() {
            let f: Vec<&str> = line.split_whitespace().collect();
            match f.as_slice() {
                ["OP", k1, tag] => {
                    let idx: usize = k1.parse::<usize>().unwrap_or(1) - 1;
                    if *tag == "panic" {
                        panics += 1;
                    }
                    if *tag == "ok" {
                        if let Some(op) = ops.get(idx) {
                            apply_model(&mut m, op);
                            if matches!(op, POp::Flush) {
                                acked = m.clone();
                                later.clear();
                            } else {
                                later.push(m.clone());
                            }
                        }
                    } else {
                        failed_ops += 1;
                    }
                }
                ["BULK", j, start, rtag, "flush", ftag] => {
                    let j: usize = j.parse().unwrap_or(0);
                    let start: usize = start.parse().unwrap_or(0);
                    if *rtag == "panic" || *ftag == "panic" {
                        panics += 1;
                    }
                    if *rtag == "ok" {
                        let nleaves = 3000usize;
                        let leaves: Vec<Fr> = (0..nleaves).map(|i| Fr::from((7_000_000 + j * 10_000 + i) as u64)).collect();
                        m.write_range(start, &leaves);
                        if *ftag == "ok" {
                            acked = m.clone();
                            later.clear();
                        } else {
                            later.push(m.clone());
                        }
                    } else {
                        failed_ops += 1;
                    }
                }
                _ => {}
            }
        }
        rep.countn("os_fault_operations_reported_failed", failed_ops);
        if panics > 0 {
            rep.violation("os-fault:operation-panicked", json!({"panics": panics, "stdout_tail": text.lines().rev().take(6).collect::<Vec<_>>()}));
        }
        // reopen without the limit
        rep.ev();
        match open(depth, &path, variant) {
            Ok(mut r) => {
                let pos = watch(&acked, &[]);
                match observe(&mut r, &pos) {
                    Ok(o) => {
                        let mut states = vec![acked.clone()];
                        states.extend(later.iter().cloned());
                        let lost: Vec<usize> = o.leaves.iter().filter(|(p, v)| !states.iter().any(|s| Some(s.get(*p)) == *v)).map(|x| x.0).take(5).collect();
                        if !lost.is_empty() {
                            rep.violation("os-fault:acknowledged-update-lost", json!({"positions": lost, "variant": variant, "extra": extra}));
                        }
                        if o.count < acked.mark.min(states.iter().map(|s| s.mark).min().unwrap()) {
                            rep.violation("os-fault:leaf-count-went-backwards", json!({"reopened": o.count, "acknowledged": acked.mark}));
                        }
                        rep.count("os_fault_recoveries_checked");
                    }
                    Err(p) => rep.violation(format!("os-fault:observer-panic:{}", p.file()), json!({"panic": p.msg})),
                }
            }
            Err(e) => rep.violation("os-fault:reopen-failed", json!({"error": e, "variant": variant, "extra": extra})),
        }
        let _ = std::fs::remove_dir_all(&base);
    }
}

fn hostile_reopen(rep: &mut Rep, seed: u64, n: usize) {
    let me = match std::env::var("VH_SELF").or_else(|_| std::env::current_exe().map(|p| p.to_string_lossy().to_string())) {
        Ok(m) => m,
        Err(_) => return,
    };
    let mut rng = rng_for(seed, "c16-hostile");
    let mut counter = 0u64;
    for k in 0..n {
        let depth = [4usize, 20, 8][k % 3];
        let variant = [4usize, 0][k % 2];
        let hold_ms = [10u64, 60, 150, 300, 500][k % 5];
        let base = fresh_dir(&format!("hostile{k}"));
        let path = format!("{base}/db");
        let mut m = Model::new(depth, poseidon_h, Fr::from(0u64));
        {
            let mut r = match open(depth, &path, variant) {
                Ok(r) => r,
                Err(e) => {
                    rep.inconclusive(e);
                    continue;
                }
            };
            for op in gen_history(&mut rng, depth, 12, false, &mut counter) {
                if let Ok(Ok(())) = apply(&mut r, depth, &op) {
                    apply_model(&mut m, &op);
                }
            }
            let _ = apply(&mut r, depth, &POp::Flush);
        }
        // another process takes the storage lock and keeps it for hold_ms
        let mut ch = match std::process::Command::new(&me).args(["c16-hold", &path, &hold_ms.to_string()]).stdout(std::process::Stdio::piped()).spawn() {
            Ok(c) => c,
            Err(_) => continue,
        };
        let mut rd = BufReader::new(ch.stdout.take().unwrap());
        let mut line = String::new();
        let _ = rd.read_line(&mut line);
        if line.trim() != "HOLDING" {
            rep.inconclusive(format!("lock holder did not start: {}", line.trim()));
            let _ = ch.wait();
            continue;
        }
        let retries0 = hooks::OPEN_RETRIES.load(Ordering::SeqCst);
        let t0 = std::time::Instant::now();
        rep.ev();
        rep.stratum(format!("hostile-reopen|d{depth}|hold={hold_ms}ms|variant{variant}"));
        match open(depth, &path, variant) {
            Ok(mut r) => {
                let pos = watch(&m, &[]);
                match observe(&mut r, &pos) {
                    Ok(o) => {
                        if let Some(what) = compare(&o, &m) {
                            rep.violation(format!("reopen-while-lock-held:{what}-differs"), json!({"depth": depth, "hold_ms": hold_ms, "model_count": m.mark, "reopened_count": o.count, "elapsed_ms": t0.elapsed().as_millis() as u64, "open_retries": hooks::OPEN_RETRIES.load(Ordering::SeqCst) - retries0}));
                        } else {
                            rep.count("hostile_reopens_equal_to_model");
                        }
                    }
                    Err(p) => rep.violation(format!("reopen-while-lock-held:observer-panic:{}", p.file()), json!({"panic": p.msg})),
                }
            }
            Err(e) => rep.violation("reopen-while-lock-held:failed", json!({"error": e, "hold_ms": hold_ms})),
        }
        rep.countn("hostile_reopen_retries", hooks::OPEN_RETRIES.load(Ordering::SeqCst) - retries0);
        rep.countn("hostile_reopen_ms_total", t0.elapsed().as_millis() as u64);
        let _ = ch.wait();
        let _ = std::fs::remove_dir_all(&base);
    }
}

pub fn run(rep: &mut Rep) {
    rep.rule = "(A) generated histories over set/delete/append/range/batch/metadata/flush (and reset/init) through RLN on persistent trees, 6 storage configurations x 4 path styles x depths {3,4,5,8,20}: flush+drop+reopen at 4 points per history must equal the model, which the reopened tree keeps following; (B) every storage operation (put, put_batch, flush) of short histories fails once: the API call must return Err, earlier acknowledged leaves/count/metadata must be readable after disarm+flush+reopen; (C) SIGKILL of a writer process 0..120 ms after an acknowledged flush; (D) reopen while another process holds the storage lock for 10..500 ms; (E) a writer process whose file-size limit is lowered after its first acknowledged flush so that sled's writes really fail (EFBIG): nothing may panic, and what was reported successful and flushed must be readable after reopen. distinct_nontrivial = distinct (leg, op kind / config / depth / offset of the failing storage op in its call / delay) keys; fault positions that fired are counted".into();
    rep.assumptions = vec![
        "the fault hook returns the adapter's normal error value at the entry of SledDB::put / put_batch / close (same path as a failing sled call)".into(),
        "the effect of a failed or in-flight operation is indeterminate and excluded; everything acknowledged before it is checked".into(),
        "SIGKILL models a process crash, not a power failure (page cache survives)".into(),
    ];
    let thorough = rep.thorough();
    let seed = rep.seed;
    reopen_monitor(rep, seed, if thorough { 240 } else { 18 });
    fault_enumeration(rep, seed, if thorough { 60 } else { 5 }, if thorough { 400 } else { 90 });
    crash_points(rep, seed, if thorough { 200 } else { 16 });
    hostile_reopen(rep, seed, if thorough { 60 } else { 5 });
    os_level_faults(rep, seed, if thorough { 12 } else { 2 });
    rep.sample(json!({"fault_enumeration": "history replayed once per storage operation k with FAIL_AFTER = k; the API call in which the fault fired must return Err", "hook_counters": {"ops_seen": hooks::OPS_SEEN.load(Ordering::SeqCst), "faults_fired": hooks::FAULTS_FIRED.load(Ordering::SeqCst), "open_retries": hooks::OPEN_RETRIES.load(Ordering::SeqCst)}}));
}
