//! C19 -- witness-graph operators follow circom's field semantics on every operand.
//! Monitor: every operator of both evaluators (`eval` on U256, `eval_fr` on Fr) is run on the
//! boundary grid (all pairs) and on random operands; each result is compared with the big-integer
//! reference semantics in `circomref`; panics are caught and are violations.

use crate::circomref::{Ctx, Op, ALL_OPS};
use crate::common::*;
use num_bigint::BigUint;
use rand::Rng;
use rln::circuit::iden3calc::graph::{Operation, TresOperation, UnoOperation};
use ruint::aliases::U256;
use serde_json::json;

pub fn to_rln(op: Op) -> Operation {
    match op {
        Op::Mul => Operation::Mul,
        Op::Div => Operation::Div,
        Op::Add => Operation::Add,
        Op::Sub => Operation::Sub,
        Op::Pow => Operation::Pow,
        Op::Idiv => Operation::Idiv,
        Op::Mod => Operation::Mod,
        Op::Eq => Operation::Eq,
        Op::Neq => Operation::Neq,
        Op::Lt => Operation::Lt,
        Op::Gt => Operation::Gt,
        Op::Leq => Operation::Leq,
        Op::Geq => Operation::Geq,
        Op::Land => Operation::Land,
        Op::Lor => Operation::Lor,
        Op::Shl => Operation::Shl,
        Op::Shr => Operation::Shr,
        Op::Bor => Operation::Bor,
        Op::Band => Operation::Band,
        Op::Bxor => Operation::Bxor,
    }
}

pub fn big_to_u256(x: &BigUint) -> U256 {
    U256::from_le_bytes(big_to_le32(x))
}

pub fn u256_to_big(x: &U256) -> BigUint {
    BigUint::from_bytes_le(&x.to_le_bytes::<32>())
}

/// In which evaluators is `op` defined (the statement: "every operator the evaluator accepts")?
/// `eval_fr` has `unimplemented!` for Pow, and `montgomery_form` refuses graphs containing it.
pub fn fr_accepts(op: Op) -> bool {
    op != Op::Pow
}

fn shape(op: Op, a: &BigUint, b: &BigUint, ctx: &Ctx) -> String {
    // coarse shape of the operand pair used in violation signatures
    let pm = &ctx.p;
    match op {
        Op::Shl | Op::Shr => {
            let k = if b > &ctx.half {
                "count>p/2"
            } else if b >= &BigUint::from(254u32) {
                "254<=count<=p/2"
            } else if b >= &BigUint::from(64u32) {
                "64<=count<254"
            } else {
                "count<64"
            };
            k.to_string()
        }
        Op::Bor | Op::Bxor | Op::Band => {
            let raw = match op {
                Op::Bor => a | b,
                Op::Bxor => a ^ b,
                _ => a & b,
            };
            if &raw == pm {
                "raw==p".into()
            } else if &raw > pm {
                "raw>p".into()
            } else {
                "raw<p".into()
            }
        }
        Op::Idiv | Op::Mod | Op::Div => {
            if b == &BigUint::from(0u8) {
                "b==0".into()
            } else {
                "b!=0".into()
            }
        }
        _ => "any".into(),
    }
}

fn check_pair(rep: &mut Rep, ctx: &Ctx, op: Op, la: &str, a: &BigUint, lb: &str, b: &BigUint) {
    let want = ctx.eval(op, a, b);
    let rop = to_rln(op);
    let sh = shape(op, a, b, ctx);
    rep.stratum(format!("{:?}|{}|{}", op, class_of_big(a), class_of_big(b)));
    // Montgomery evaluator
    let mut got_fr: Option<BigUint> = None;
    if fr_accepts(op) {
        rep.ev();
        let (fa, fb) = (big_to_fr(a), big_to_fr(b));
        match catch(|| rop.eval_fr(fa, fb)) {
            Ok(r) => {
                let g = fr_to_big(&r);
                if g != want {
                    rep.violation(
                        format!("eval_fr:{:?}:mismatch:{}", op, sh),
                        json!({"op": format!("{:?}", op), "a": a.to_string(), "a_label": la, "b": b.to_string(), "b_label": lb,
                               "expected": want.to_string(), "got": g.to_string()}),
                    );
                }
                got_fr = Some(g);
            }
            Err(pn) => rep.violation(
                format!("eval_fr:{:?}:panic:{}:{}", op, pn.file(), sh),
                json!({"op": format!("{:?}", op), "a": a.to_string(), "a_label": la, "b": b.to_string(), "b_label": lb,
                       "expected": want.to_string(), "panic": pn.msg, "at": pn.loc}),
            ),
        }
    }
    // integer evaluator
    rep.ev();
    let (ua, ub) = (big_to_u256(a), big_to_u256(b));
    match catch(|| rop.eval(ua, ub)) {
        Ok(r) => {
            let g = u256_to_big(&r);
            if g >= ctx.p {
                rep.violation(
                    format!("eval:{:?}:noncanonical:{}", op, sh),
                    json!({"op": format!("{:?}", op), "a": a.to_string(), "a_label": la, "b": b.to_string(), "b_label": lb,
                           "expected": want.to_string(), "got": g.to_string()}),
                );
            } else if g != want {
                rep.violation(
                    format!("eval:{:?}:mismatch:{}", op, sh),
                    json!({"op": format!("{:?}", op), "a": a.to_string(), "a_label": la, "b": b.to_string(), "b_label": lb,
                           "expected": want.to_string(), "got": g.to_string()}),
                );
            }
            if let Some(gf) = got_fr {
                if gf != g {
                    rep.count("evaluators_disagree");
                }
            }
        }
        Err(pn) => rep.violation(
            format!("eval:{:?}:panic:{}:{}", op, pn.file(), sh),
            json!({"op": format!("{:?}", op), "a": a.to_string(), "a_label": la, "b": b.to_string(), "b_label": lb,
                   "expected": want.to_string(), "panic": pn.msg, "at": pn.loc}),
        ),
    }
}

fn check_uno(rep: &mut Rep, ctx: &Ctx, la: &str, a: &BigUint) {
    let want = ctx.neg(a);
    rep.stratum(format!("Neg|{}", class_of_big(a)));
    rep.ev();
    match catch(|| UnoOperation::Neg.eval_fr(big_to_fr(a))) {
        Ok(r) => {
            if fr_to_big(&r) != want {
                rep.violation("eval_fr:Neg:mismatch", json!({"a": a.to_string(), "a_label": la, "expected": want.to_string(), "got": fr_s(&r)}));
            }
        }
        Err(pn) => rep.violation(format!("eval_fr:Neg:panic:{}", pn.file()), json!({"a": a.to_string(), "panic": pn.msg, "at": pn.loc})),
    }
    rep.ev();
    match catch(|| UnoOperation::Neg.eval(big_to_u256(a))) {
        Ok(r) => {
            if u256_to_big(&r) != want {
                rep.violation("eval:Neg:mismatch", json!({"a": a.to_string(), "a_label": la, "expected": want.to_string(), "got": u256_to_big(&r).to_string()}));
            }
        }
        Err(pn) => rep.violation(format!("eval:Neg:panic:{}", pn.file()), json!({"a": a.to_string(), "panic": pn.msg, "at": pn.loc})),
    }
    rep.ev();
    match catch(|| UnoOperation::Id.eval(big_to_u256(a))) {
        Ok(r) => {
            if &u256_to_big(&r) != a {
                rep.violation("eval:Id:mismatch", json!({"a": a.to_string(), "got": u256_to_big(&r).to_string()}));
            }
        }
        Err(pn) => rep.violation(format!("eval:Id:panic:{}", pn.file()), json!({"a": a.to_string(), "panic": pn.msg, "at": pn.loc})),
    }
}

fn check_tres(rep: &mut Rep, ctx: &Ctx, c: &BigUint, t: &BigUint, e: &BigUint) {
    let want = ctx.tern(c, t, e);
    rep.stratum(format!("Tern|{}|{}|{}", class_of_big(c), class_of_big(t), class_of_big(e)));
    rep.ev();
    match catch(|| TresOperation::TernCond.eval_fr(big_to_fr(c), big_to_fr(t), big_to_fr(e))) {
        Ok(r) => {
            if fr_to_big(&r) != want {
                rep.violation("eval_fr:TernCond:mismatch", json!({"c": c.to_string(), "t": t.to_string(), "e": e.to_string(), "got": fr_s(&r)}));
            }
        }
        Err(pn) => rep.violation(format!("eval_fr:TernCond:panic:{}", pn.file()), json!({"panic": pn.msg, "at": pn.loc})),
    }
    rep.ev();
    match catch(|| TresOperation::TernCond.eval(big_to_u256(c), big_to_u256(t), big_to_u256(e))) {
        Ok(r) => {
            if u256_to_big(&r) != want {
                rep.violation("eval:TernCond:mismatch", json!({"c": c.to_string(), "t": t.to_string(), "e": e.to_string(), "got": u256_to_big(&r).to_string()}));
            }
        }
        Err(pn) => rep.violation(format!("eval:TernCond:panic:{}", pn.file()), json!({"panic": pn.msg, "at": pn.loc})),
    }
}

pub fn run(rep: &mut Rep) {
    rep.rule = "every Operation/UnoOperation/TresOperation of both evaluators on operand tuples from the boundary grid (all pairs; full 750-value grid in thorough, 60-value sub-grid in quick), exhaustive shift counts 0..260 and p-260..p-1, and random operands; each result compared with a big-integer reference of circom's semantics. distinct_nontrivial = distinct (operator, class(a), class(b)) with class in {0,1,p-1,near-p,half,pow2@limb,mid@limb,neg@limb}".into();
    rep.assumptions = vec![
        "reference semantics transcribed from circom's documentation (Basic operators) and its reference field library behaviour for shifts with count > p/2".into(),
        "num-bigint arithmetic".into(),
        "Pow and Id are outside eval_fr's accepted operators (unimplemented!/refused by montgomery_form)".into(),
    ];
    let thorough = rep.thorough();
    let grid = if thorough { full_grid() } else { small_grid() };
    rep.note("grid_size", json!(grid.len()));
    let n = ncpu();
    let seed = rep.seed;
    let nrand: usize = if thorough { 3_000_000 } else { 200_000 };

    // (1) all pairs over the grid, all ops; sharded by row
    par_shards(rep, n, |shard, r| {
        let ctx = Ctx::new();
        for (i, (la, a)) in grid.iter().enumerate() {
            if i % n != shard {
                continue;
            }
            for (lb, b) in grid.iter() {
                for op in ALL_OPS {
                    check_pair(r, &ctx, op, la, a, lb, b);
                }
            }
        }
    });
    // (2) shift counts exhaustively near 0..260 and p-260..p-1, plus counts around p/2
    {
        let ctx = Ctx::new();
        let sg = small_grid();
        let mut counts: Vec<BigUint> = (0u32..=260).map(BigUint::from).collect();
        for d in 1u32..=260 {
            counts.push(&ctx.p - BigUint::from(d));
        }
        for d in 0u32..3 {
            counts.push(&ctx.half - BigUint::from(d));
            counts.push(&ctx.half + BigUint::from(d + 1));
        }
        for k in &counts {
            for (la, a) in sg.iter() {
                for op in [Op::Shl, Op::Shr] {
                    check_pair(rep, &ctx, op, la, a, "count", k);
                }
            }
        }
        rep.note("shift_counts", json!(counts.len()));
    }
    // (3) unary over the full grid, ternary over all triples of a 12-value grid
    {
        let ctx = Ctx::new();
        for (la, a) in full_grid().iter() {
            check_uno(rep, &ctx, la, a);
        }
        let sg = small_grid();
        let idx = [0usize, 1, 2, 10, 20, 30, sg.len() - 12, sg.len() - 10, sg.len() - 9, sg.len() - 3, sg.len() - 2, sg.len() - 1];
        for &i in &idx {
            for &j in &idx {
                for &k in &idx {
                    check_tres(rep, &ctx, &sg[i].1, &sg[j].1, &sg[k].1);
                }
            }
        }
    }
    // (4) random operands (mixed with grid values on one side)
    par_shards(rep, n, |shard, r| {
        let ctx = Ctx::new();
        let mut rng = rng_for(seed, &format!("c19-rand-{shard}"));
        let sg = small_grid();
        for i in 0..nrand / n {
            let a = if i % 3 == 0 { pick(&mut rng, &sg).1.clone() } else { rand_big_below(&mut rng, &ctx.p) };
            let b = match i % 5 {
                0 => pick(&mut rng, &sg).1.clone(),
                1 => BigUint::from(rng.gen_range(0u32..300)),
                2 => &ctx.p - BigUint::from(rng.gen_range(1u32..300)),
                _ => rand_big_below(&mut rng, &ctx.p),
            };
            let op = ALL_OPS[rng.gen_range(0..ALL_OPS.len())];
            check_pair(r, &ctx, op, "rand", &a, "rand", &b);
        }
    });
    // samples: a few concrete evaluations with their reference values
    {
        let ctx = Ctx::new();
        let pm1 = &ctx.p - BigUint::from(1u8);
        for (op, a, b) in [
            (Op::Shl, pm1.clone(), BigUint::from(1u8)),
            (Op::Bor, pm1.clone(), BigUint::from(1u8)),
            (Op::Shr, pm1.clone(), &ctx.p - BigUint::from(1u8)),
            (Op::Lt, ctx.half.clone(), &ctx.half + BigUint::from(1u8)),
            (Op::Idiv, pm1.clone(), BigUint::from(0u8)),
        ] {
            let want = ctx.eval(op, &a, &b);
            let got_fr = catch(|| to_rln(op).eval_fr(big_to_fr(&a), big_to_fr(&b))).map(|r| fr_s(&r)).unwrap_or_else(|p| format!("panic: {}", p.msg));
            let got_u = catch(|| to_rln(op).eval(big_to_u256(&a), big_to_u256(&b))).map(|r| u256_to_big(&r).to_string()).unwrap_or_else(|p| format!("panic: {}", p.msg));
            rep.sample(json!({"op": format!("{:?}", op), "a": a.to_string(), "b": b.to_string(), "reference": want.to_string(), "eval_fr": got_fr, "eval": got_u}));
        }
    }
}
