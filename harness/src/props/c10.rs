//! C10 -- byte encodings round-trip and match the documented layouts.
//! Monitors: (a) round trip of every serialiser/deserialiser pair on generated values,
//! (b) byte-for-byte comparison with the independent codec (crate::codec), (c) truncated/extended
//! witness encodings must not decode.

use crate::codec::*;
use crate::common::*;
use ark_bn254::Fr;
use rand::Rng;
use rln::protocol::*;
use rln::utils::*;
use serde_json::json;

fn lens() -> Vec<usize> {
    vec![0, 1, 2, 3, 19, 20, 21, 64, 255, 256, 1000]
}

fn gen_fr(rng: &mut impl rand::RngCore, grid: &[(String, Fr)], i: usize) -> (String, Fr) {
    if i % 2 == 0 {
        let (l, v) = &grid[(i / 2) % grid.len()];
        (l.clone(), *v)
    } else {
        ("random".into(), rand_fr(rng))
    }
}

fn viol(rep: &mut Rep, sig: &str, d: serde_json::Value) {
    rep.violation(sig.to_string(), d);
}

pub fn gen_witness(rng: &mut impl rand::RngCore, grid: &[(String, Fr)], i: usize, depth: usize) -> (String, Witness) {
    let (l1, secret) = gen_fr(rng, grid, i);
    let (l2, ext) = gen_fr(rng, grid, i / 3 + 1);
    let (l3, x) = gen_fr(rng, grid, i / 5 + 2);
    let limits = [1u64, 2, 100, 1 << 15, (1 << 16) - 1, 1 << 16];
    let limit = limits[i % limits.len()];
    let id = match i % 4 {
        0 => 0,
        1 => limit - 1,
        2 => limit / 2,
        _ => rng.gen_range(0..limit),
    };
    let path: Vec<Fr> = (0..depth).map(|k| if (i + k) % 7 == 0 { grid[(i + k) % grid.len()].1 } else { rand_fr(rng) }).collect();
    let bits: Vec<u8> = (0..depth).map(|_| rng.gen_range(0..2u8)).collect();
    (
        format!("s={l1}|e={l2}|x={l3}|limit={limit}|idclass={}|depth={depth}", i % 4),
        Witness { secret, limit: Fr::from(limit), msg_id: Fr::from(id), path, bits, x, ext },
    )
}

pub fn run(rep: &mut Rep) {
    // Every value handed to an encoder below is a well-formed value of its type and every byte string handed to a
    // decoder outside an explicit `catch` is an independent encoding of such a value: a panic of the codecs under
    // test on one of them is a failed round trip, not a harness failure.
    if let Err(p) = catch(|| run_inner(rep)) {
        if p.loc.contains("/repo/") {
            rep.violation(format!("codec:panic-on-well-formed-value:{}", p.file()), json!({"panic": p.msg, "at": p.loc, "note": "the remaining workload of this run was not executed"}));
        } else {
            rep.inconclusive(format!("harness panic: {} at {}", p.msg, p.loc));
        }
    }
}

fn run_inner(rep: &mut Rep) {
    rep.rule = "round trip of every codec pair on boundary+random values; bytes compared with an independent encoder written from the documented layouts; every truncation length and 1..40 trailing bytes of witness encodings must fail to decode. distinct_nontrivial = distinct (codec pair, value class / length) keys".into();
    rep.assumptions = vec!["documented layouts as transcribed in DESIGN.md Appendix A".into()];
    let thorough = rep.thorough();
    let mut rng = rng_for(rep.seed, "c10");
    let grid = fr_boundary();
    let reps = if thorough { 40 } else { 4 };

    // ---- Fr
    let n_fr = if thorough { 200_000 } else { 20_000 };
    for i in 0..n_fr {
        let (lab, v) = gen_fr(&mut rng, &grid, i);
        rep.ev();
        rep.stratum(format!("fr|{}", if lab == "random" { class_of_big(&fr_to_big(&v)) } else { lab.clone() }));
        let enc = fr_to_bytes_le(&v);
        if enc != enc_fr(&v) {
            viol(rep, "fr:layout", json!({"value": fr_s(&v), "zerokit": hex(&enc), "independent": hex(&enc_fr(&v))}));
        }
        match catch(|| bytes_le_to_fr(&enc)) {
            Ok((back, read)) => {
                if back != v || read != 32 {
                    viol(rep, "fr:roundtrip", json!({"value": fr_s(&v), "back": fr_s(&back), "read": read}));
                }
            }
            Err(p) => viol(rep, "fr:roundtrip:panic", json!({"value": fr_s(&v), "panic": p.msg})),
        }
        if i < 2000 {
            // serialize_field_element / deserialize_field_element
            match catch(|| {
                let e2 = serialize_field_element(v);
                e2 == enc && deserialize_field_element(e2) == v
            }) {
                Ok(true) => {}
                Ok(false) => viol(rep, "field_element:roundtrip", json!({"value": fr_s(&v)})),
                Err(p) => viol(rep, "field_element:roundtrip:panic", json!({"value": fr_s(&v), "panic": p.msg})),
            }
        }
    }
    // ---- Vec<Fr>, Vec<u8>, Vec<usize>
    for _ in 0..reps {
        for &n in lens().iter() {
            let v: Vec<Fr> = (0..n).map(|i| gen_fr(&mut rng, &grid, i + n).1).collect();
            rep.ev();
            rep.stratum(format!("vec_fr|len={n}"));
            match vec_fr_to_bytes_le(&v) {
                Ok(enc) => {
                    if enc != enc_vec_fr(&v) {
                        viol(rep, "vec_fr:layout", json!({"len": n, "zerokit": hex_short(&enc), "independent": hex_short(&enc_vec_fr(&v))}));
                    }
                    match catch(|| bytes_le_to_vec_fr(&enc)) {
                        Ok(Ok((back, read))) => {
                            if back != v || read != enc.len() {
                                viol(rep, "vec_fr:roundtrip", json!({"len": n, "read": read, "enc_len": enc.len()}));
                            }
                        }
                        Ok(Err(e)) => viol(rep, "vec_fr:roundtrip:err", json!({"len": n, "err": e.to_string()})),
                        Err(p) => viol(rep, "vec_fr:roundtrip:panic", json!({"len": n, "panic": p.msg})),
                    }
                    // decoding must also work when followed by other data (it is used mid-stream)
                    let mut ext = enc.clone();
                    ext.extend_from_slice(&[0xAA; 40]);
                    if let Ok(Ok((back, read))) = catch(|| bytes_le_to_vec_fr(&ext)) {
                        if back != v || read != enc.len() {
                            viol(rep, "vec_fr:midstream", json!({"len": n, "read": read}));
                        }
                    } else {
                        viol(rep, "vec_fr:midstream:fail", json!({"len": n}));
                    }
                }
                Err(e) => viol(rep, "vec_fr:encode:err", json!({"len": n, "err": e.to_string()})),
            }
        }
        for &n in [0usize, 1, 2, 7, 8, 9, 20, 135, 136, 137, 300, 65536, 1 << 20].iter() {
            let v = rand_bytes(&mut rng, n);
            rep.ev();
            rep.stratum(format!("vec_u8|len={n}"));
            match vec_u8_to_bytes_le(&v) {
                Ok(enc) => {
                    if enc != enc_vec_u8(&v) {
                        viol(rep, "vec_u8:layout", json!({"len": n}));
                    }
                    match catch(|| bytes_le_to_vec_u8(&enc)) {
                        Ok(Ok((back, read))) => {
                            if back != v || read != enc.len() {
                                viol(rep, "vec_u8:roundtrip", json!({"len": n, "read": read}));
                            }
                        }
                        _ => viol(rep, "vec_u8:roundtrip:fail", json!({"len": n})),
                    }
                }
                Err(e) => viol(rep, "vec_u8:encode:err", json!({"len": n, "err": e.to_string()})),
            }
        }
        // Vec<usize>: the encoder in use is ark's serialize_compressed (get_empty_leaves_indices),
        // the decoder is bytes_le_to_vec_usize
        let specials: [usize; 8] = [0, 1, 255, 256, (1 << 32) - 1, 1 << 32, 1 << 63, usize::MAX];
        for &n in [0usize, 1, 2, 8, 100].iter() {
            let v: Vec<usize> = (0..n).map(|i| if i < specials.len() { specials[(i + n) % specials.len()] } else { rng.gen() }).collect();
            rep.ev();
            rep.stratum(format!("vec_usize|len={n}"));
            let mut enc = vec![];
            ark_serialize::CanonicalSerialize::serialize_compressed(&v, &mut enc).unwrap();
            if enc != enc_vec_usize(&v) {
                viol(rep, "vec_usize:layout", json!({"values": v, "zerokit": hex_short(&enc)}));
            }
            match catch(|| bytes_le_to_vec_usize(&enc)) {
                Ok(Ok(back)) => {
                    if back != v {
                        viol(rep, "vec_usize:roundtrip", json!({"values": v, "back": back}));
                    }
                }
                _ => viol(rep, "vec_usize:roundtrip:fail", json!({"values": v})),
            }
            for &u in v.iter().take(4) {
                rep.ev();
                if normalize_usize(u).to_vec() != enc_u64(u as u64) {
                    viol(rep, "normalize_usize:layout", json!({"value": u}));
                }
            }
        }
    }
    // ---- witness: encode with the independent encoder, decode with zerokit, re-encode, JSON forms
    let nw = if thorough { 20_000 } else { 1_500 };
    let mut trunc_checked = 0u64;
    let mut trunc_panics = 0u64;
    for i in 0..nw {
        let depth = [20usize, 20, 20, 0, 1, 19, 21, 32][i % 8];
        let (mut lab, mut w) = gen_witness(&mut rng, &grid, i, depth);
        // the two vectors of a witness are encoded independently: the decoder also accepts encodings in which
        // they differ in length, and such a value must survive re-encoding like any other
        let mismatched = i % 6 == 5;
        if mismatched {
            let nl = [0usize, depth.saturating_sub(1), depth + 1, depth + 5, 2 * depth + 3][(i / 6) % 5];
            if nl != depth {
                w.bits = (0..nl).map(|_| rng.gen_range(0..2u8)).collect();
                lab = format!("{lab}|index-len{}path-len", if nl < depth { "<" } else { ">" });
            }
        }
        let enc = enc_witness(&w);
        rep.ev();
        rep.stratum(format!("witness|{lab}"));
        // truncation / extension (every length for a subset of witnesses, among them encodings whose two vectors differ
        // in length; done before - and whether or not - the full encoding decodes)
        if i % (if thorough { 20 } else { 100 }) == 0 || (w.bits.len() != w.path.len() && (i / 6) % 7 < 2) {
            for cut in 0..enc.len() {
                rep.ev();
                trunc_checked += 1;
                match catch(|| deserialize_witness(&enc[..cut]).is_ok()) {
                    Ok(true) => viol(rep, "witness:truncated-accepted", json!({"case": lab, "full_len": enc.len(), "cut": cut})),
                    Ok(false) => {}
                    Err(_) => trunc_panics += 1,
                }
            }
            for extra in 1..=40usize {
                rep.ev();
                trunc_checked += 1;
                let mut e2 = enc.clone();
                e2.extend(rand_bytes(&mut rng, extra));
                match catch(|| deserialize_witness(&e2).is_ok()) {
                    Ok(true) => viol(rep, "witness:trailing-accepted", json!({"case": lab, "full_len": enc.len(), "extra": extra})),
                    Ok(false) => {}
                    Err(_) => trunc_panics += 1,
                }
            }
            rep.stratum(format!("witness-trunc|depth={depth}|index-len{}path-len", match w.bits.len().cmp(&w.path.len()) { std::cmp::Ordering::Less => "<", std::cmp::Ordering::Equal => "==", std::cmp::Ordering::Greater => ">" }));
        }
        let dec = catch(|| deserialize_witness(&enc));
        let zw = match dec {
            Ok(Ok((zw, read))) => {
                if read != enc.len() {
                    viol(rep, "witness:decode:read-len", json!({"read": read, "len": enc.len()}));
                }
                zw
            }
            Ok(Err(_)) if mismatched && w.bits.len() != w.path.len() => {
                // refusing such an encoding is as good as carrying it faithfully
                rep.count("witness_mismatched_vector_lengths_refused_by_decoder");
                continue;
            }
            Ok(Err(e)) => {
                viol(rep, "witness:decode:err", json!({"case": lab, "err": e.to_string(), "enc": hex_short(&enc)}));
                continue;
            }
            Err(p) => {
                viol(rep, "witness:decode:panic", json!({"case": lab, "panic": p.msg, "at": p.loc}));
                continue;
            }
        };
        match catch(|| serialize_witness(&zw)) {
            Ok(Ok(re)) => {
                if re != enc {
                    viol(rep, "witness:layout", json!({"case": lab, "zerokit": hex_short(&re), "independent": hex_short(&enc)}));
                }
                match deserialize_witness(&re) {
                    Ok((zw2, _)) if zw2 == zw => {}
                    _ => viol(rep, "witness:roundtrip", json!({"case": lab})),
                }
            }
            Ok(Err(e)) => viol(rep, "witness:encode:err", json!({"case": lab, "err": e.to_string()})),
            Err(p) => viol(rep, "witness:encode:panic", json!({"case": lab, "panic": p.msg})),
        }
        // JSON round trip
        if i % 4 == 0 || mismatched {
            rep.ev();
            match catch(|| rln_witness_to_json(&zw).and_then(rln_witness_from_json)) {
                Ok(Ok(back)) => {
                    if back != zw {
                        viol(rep, "witness_json:roundtrip", json!({"case": lab}));
                    }
                }
                Ok(Err(e)) => viol(rep, "witness_json:err", json!({"case": lab, "err": e.to_string()})),
                Err(p) => viol(rep, "witness_json:panic", json!({"case": lab, "panic": p.msg})),
            }
            // bigint JSON: compare with independently built expected value (also for vectors of different length)
            rep.ev();
            let want = crate::noderef::rln_inputs_json(&w);
            match catch(|| rln_witness_to_bigint_json(&zw)) {
                Ok(Ok(got)) => {
                    if got != want {
                        viol(rep, "witness_bigint_json:mismatch", json!({"case": lab, "got": got, "want": want}));
                    }
                }
                _ => viol(rep, "witness_bigint_json:fail", json!({"case": lab})),
            }
        }
    }
    rep.countn("witness_truncations_checked", trunc_checked);
    rep.countn("witness_truncation_panics_counted_as_not_ok", trunc_panics);
    // ---- proof values, identity tuples, request layouts
    let npv = if thorough { 50_000 } else { 5_000 };
    for i in 0..npv {
        let v = ProofValues {
            root: gen_fr(&mut rng, &grid, i).1,
            ext: gen_fr(&mut rng, &grid, i + 1).1,
            x: gen_fr(&mut rng, &grid, i / 2).1,
            y: gen_fr(&mut rng, &grid, i / 3 + 1).1,
            nullifier: gen_fr(&mut rng, &grid, i / 5).1,
        };
        rep.ev();
        rep.stratum(format!("proof_values|{}", i % 32));
        let enc = enc_proof_values(&v);
        match catch(|| deserialize_proof_values(&enc)) {
            Ok((pv, read)) => {
                if read != 160 || pv.root != v.root || pv.external_nullifier != v.ext || pv.x != v.x || pv.y != v.y || pv.nullifier != v.nullifier {
                    viol(rep, "proof_values:decode", json!({"enc": hex(&enc)}));
                }
                if serialize_proof_values(&pv) != enc {
                    viol(rep, "proof_values:layout", json!({"enc": hex(&enc), "zerokit": hex(&serialize_proof_values(&pv))}));
                }
            }
            Err(p) => viol(rep, "proof_values:panic", json!({"panic": p.msg})),
        }
        // identity pair / tuple
        rep.ev();
        let pair_enc: Vec<u8> = [enc_fr(&v.root), enc_fr(&v.ext)].concat();
        if deserialize_identity_pair(pair_enc) != (v.root, v.ext) {
            viol(rep, "identity_pair:decode", json!({}));
        }
        let tup_enc: Vec<u8> = [enc_fr(&v.root), enc_fr(&v.ext), enc_fr(&v.x), enc_fr(&v.y)].concat();
        if deserialize_identity_tuple(tup_enc) != (v.root, v.ext, v.x, v.y) {
            viol(rep, "identity_tuple:decode", json!({}));
        }
        // request layouts
        if i % 10 == 0 {
            rep.ev();
            let sig_len = [0usize, 1, 31, 32, 33, 135, 136, 137, 300][i / 10 % 9];
            let signal = rand_bytes(&mut rng, sig_len);
            let idx = [0usize, 1, (1 << 20) - 1, 1 << 32, usize::MAX][i / 10 % 5];
            let got = prepare_prove_input(v.root, idx, v.ext, v.x, v.y, &signal);
            let want = enc_prove_request(&v.root, idx as u64, &v.ext, &v.x, &v.y, &signal);
            if got != want {
                viol(rep, "prove_request:layout", json!({"zerokit": hex_short(&got), "independent": hex_short(&want)}));
            }
            let msg = rand_bytes(&mut rng, 288);
            let got = prepare_verify_input(msg.clone(), &signal);
            if got != enc_verify_request(&msg, &signal) {
                viol(rep, "verify_request:layout", json!({"sig_len": sig_len}));
            }
            rep.stratum(format!("requests|sig_len={sig_len}|idx={idx}"));
        }
    }
    // ---- outputs of a live instance decoded by the independent decoder
    #[cfg(not(feature = "stateless"))]
    {
        use std::io::Cursor;
        match catch(|| rln::public::RLN::new(20, Cursor::new("{}".to_string()))) {
            Ok(Ok(mut r)) => {
                let leaves: Vec<Fr> = (0..9).map(|_| rand_fr(&mut rng)).collect();
                let _ = r.set_leaves_from(3, Cursor::new(enc_vec_fr(&leaves)));
                let _ = r.delete_leaf(5);
                for idx in [0usize, 3, 5, 11, (1 << 20) - 1] {
                    rep.ev();
                    rep.stratum(format!("live|get_proof|{idx}"));
                    let mut out = vec![];
                    if r.get_proof(idx, &mut out).is_ok() {
                        match dec_merkle_proof(&out) {
                            Some((p, b)) if p.len() == 20 && b.len() == 20 => {
                                let dec_idx: usize = b.iter().enumerate().map(|(k, bit)| (*bit as usize) << k).sum();
                                if dec_idx != idx || b.iter().any(|x| *x > 1) {
                                    viol(rep, "live:get_proof:index-bits", json!({"index": idx, "bits": b}));
                                }
                            }
                            _ => viol(rep, "live:get_proof:layout", json!({"index": idx, "bytes": hex_short(&out)})),
                        }
                    } else {
                        viol(rep, "live:get_proof:err", json!({"index": idx}));
                    }
                }
                rep.ev();
                rep.stratum("live|empty_indices");
                let mut out = vec![];
                let _ = r.get_empty_leaves_indices(&mut out);
                match dec_vec_usize(&out) {
                    Some(v) => {
                        rep.sample(json!({"get_empty_leaves_indices_bytes": hex_short(&out), "decoded_by_independent_decoder": v}));
                    }
                    None => viol(rep, "live:empty_indices:layout", json!({"bytes": hex_short(&out)})),
                }
                // proving requests written by the independent encoder must be decoded by zerokit into the witness
                // the independent decoder expects (interoperability of the request layout), for every signal length
                for (j, sig_len) in [0usize, 1, 2, 31, 32, 33, 135, 136, 137, 300, 5000].iter().enumerate() {
                    rep.ev();
                    rep.stratum(format!("live|prove-request-decode|sig_len={sig_len}"));
                    let signal = rand_bytes(&mut rng, *sig_len);
                    let (secret, limit, id, ext) = (rand_fr(&mut rng), Fr::from(100u64), Fr::from(j as u64), rand_fr(&mut rng));
                    let idx = [0usize, 3, 5, 11, (1 << 20) - 1][j % 5];
                    let req = enc_prove_request(&secret, idx as u64, &limit, &id, &ext, &signal);
                    match catch(|| r.get_serialized_rln_witness(Cursor::new(req.clone())).map_err(|e| e.to_string())) {
                        Ok(Ok(wb)) => match dec_witness(&wb) {
                            Some(w) => {
                                let x_want = crate::refhash::hash_to_field_ref(&signal);
                                if w.secret != secret || w.limit != limit || w.msg_id != id || w.ext != ext || w.x != x_want || w.path.len() != 20 || w.bits.len() != 20 {
                                    viol(rep, "prove_request:decoded-fields-differ", json!({"sig_len": sig_len, "request": hex_short(&req)}));
                                }
                                let dec_idx: usize = w.bits.iter().enumerate().map(|(k, bit)| (*bit as usize) << k).sum();
                                if dec_idx != idx {
                                    viol(rep, "prove_request:decoded-index-differs", json!({"index": idx, "decoded": dec_idx}));
                                }
                            }
                            None => viol(rep, "prove_request:witness-layout", json!({"sig_len": sig_len, "witness": hex_short(&wb)})),
                        },
                        Ok(Err(e)) => viol(rep, "prove_request:well-formed-request-rejected", json!({"sig_len": sig_len, "error": e, "request": hex_short(&req)})),
                        Err(p) => viol(rep, "prove_request:decode-panic", json!({"sig_len": sig_len, "panic": p.msg})),
                    }
                }
                // the instance's JSON views of a serialized witness equal the protocol functions' (and, for the
                // big-integer form, the independently built value); typed construction from a tree proof
                // (rln_witness_from_values) encodes to the same bytes as the independent encoder
                for j in 0..12usize {
                    rep.ev();
                    let (_, w) = gen_witness(&mut rng, &grid, j * 7 + 1, 20);
                    let enc = enc_witness(&w);
                    rep.stratum("live|witness-json-views");
                    match catch(|| (r.get_rln_witness_json(&enc).ok(), r.get_rln_witness_bigint_json(&enc).ok())) {
                        Ok((Some(j1), Some(j2))) => {
                            let typed = deserialize_witness(&enc).ok().map(|x| x.0);
                            let want1 = typed.as_ref().and_then(|t| rln_witness_to_json(t).ok());
                            if Some(&j1) != want1.as_ref() {
                                viol(rep, "live:get_rln_witness_json:differs-from-protocol-function", json!({"witness": hex_short(&enc)}));
                            }
                            match rln_witness_from_json(j1.clone()) {
                                Ok(back) if Some(&back) == typed.as_ref() => {}
                                _ => viol(rep, "live:get_rln_witness_json:does-not-decode-to-the-witness", json!({"witness": hex_short(&enc)})),
                            }
                            if j2 != crate::noderef::rln_inputs_json(&w) {
                                viol(rep, "live:get_rln_witness_bigint_json:mismatch", json!({"got": j2, "want": crate::noderef::rln_inputs_json(&w)}));
                            }
                        }
                        Ok(_) => viol(rep, "live:witness-json-views:err-on-valid-witness", json!({"witness": hex_short(&enc)})),
                        Err(p) => viol(rep, "live:witness-json-views:panic", json!({"panic": p.msg})),
                    }
                }
                {
                    use zerokit_utils::merkle_tree::{ZerokitMerkleProof, ZerokitMerkleTree};
                    let depth = 6;
                    if let Ok(Ok(mut t)) = catch(|| rln::poseidon_tree::PoseidonTree::default(depth)) {
                        let mut m = crate::model::Model::new(depth, crate::trees::poseidon_h, Fr::from(0u64));
                        for i in [0usize, 1, 5, 40, 63] {
                            let v = rand_fr(&mut rng);
                            if t.set(i, v).is_ok() {
                                m.set(i, v);
                            }
                        }
                        for i in [0usize, 1, 2, 5, 33, 40, 62, 63] {
                            rep.ev();
                            rep.stratum("typed|rln_witness_from_values");
                            let (secret, x, ext) = (rand_fr(&mut rng), rand_fr(&mut rng), rand_fr(&mut rng));
                            let (path, bits) = m.proof(i);
                            let w = Witness { secret, limit: Fr::from(100u64), msg_id: Fr::from(i as u64), path, bits, x, ext };
                            let got = catch(|| {
                                let pr = t.proof(i).map_err(|e| e.to_string())?;
                                let zw = rln_witness_from_values(secret, &pr, x, ext, Fr::from(100u64), Fr::from(i as u64)).map_err(|e| e.to_string())?;
                                let _ = pr.length();
                                serialize_witness(&zw).map_err(|e| e.to_string())
                            });
                            match got {
                                Ok(Ok(b)) if b == enc_witness(&w) => {}
                                Ok(Ok(b)) => viol(rep, "rln_witness_from_values:encoding-differs-from-independent-encoder", json!({"position": i, "zerokit": hex_short(&b), "independent": hex_short(&enc_witness(&w))})),
                                Ok(Err(e)) => viol(rep, "rln_witness_from_values:err", json!({"position": i, "err": e})),
                                Err(p) => viol(rep, "rln_witness_from_values:panic", json!({"panic": p.msg})),
                            }
                        }
                    }
                }
                // decimal / hexadecimal text form of a field element
                for j in 0..200usize {
                    rep.ev();
                    let (lab, v) = gen_fr(&mut rng, &grid, j);
                    let b = fr_to_big(&v);
                    let forms = [(b.to_str_radix(10), 10u32), (format!("\"{}\"", b.to_str_radix(10)), 10), (b.to_str_radix(16), 16), (format!("0x{}", b.to_str_radix(16)), 16), (format!("  {} ", b.to_str_radix(10)), 10)];
                    for (txt, radix) in forms.iter() {
                        match catch(|| rln::utils::str_to_fr(txt, *radix).ok()) {
                            Ok(Some(got)) if got == v => {}
                            _ => viol(rep, "str_to_fr:value", json!({"text": txt, "radix": radix, "case": lab})),
                        }
                    }
                    rep.stratum(format!("str_to_fr|{}", j % 8));
                }
                for k in 0..50 {
                    rep.ev();
                    let mut out = vec![];
                    let _ = r.key_gen(&mut out);
                    if dec_frs(&out, 2).is_none() {
                        viol(rep, "live:key_gen:layout", json!({"bytes": hex(&out)}));
                    }
                    let mut out = vec![];
                    let _ = r.extended_key_gen(&mut out);
                    if dec_frs(&out, 4).is_none() {
                        viol(rep, "live:extended_key_gen:layout", json!({"bytes": hex(&out)}));
                    }
                    if k == 0 {
                        rep.stratum("live|key_gen");
                    }
                }
                for idx in [0usize, 7] {
                    rep.ev();
                    let mut out = vec![];
                    let _ = r.get_leaf(idx, &mut out);
                    if dec_frs(&out, 1).is_none() {
                        viol(rep, "live:get_leaf:layout", json!({"bytes": hex(&out)}));
                    }
                    let mut out = vec![];
                    let _ = r.get_root(&mut out);
                    if dec_frs(&out, 1).is_none() {
                        viol(rep, "live:get_root:layout", json!({"bytes": hex(&out)}));
                    }
                }
            }
            Ok(Err(e)) => rep.inconclusive(format!("RLN::new failed: {e}")),
            Err(p) => rep.inconclusive(format!("RLN::new panicked: {}", p.msg)),
        }
    }
    let (lab, w) = gen_witness(&mut rng, &grid, 1, 20);
    rep.sample(json!({"witness_case": lab, "independent_encoding": hex_short(&enc_witness(&w)), "len": enc_witness(&w).len()}));
}
