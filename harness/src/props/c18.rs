//! C18 -- results do not depend on thread count or interleaving.
//! (1) transcript equality of a fixed workload across RAYON_NUM_THREADS in {1,2,3,4,5,7,16} and processor-confined children (child processes);
//! (2) shared-instance monitor: read-only calls issued concurrently by many threads on one &RLN (and
//!     one *const RLN through the FFI) compared with their sequential twins; fresh-process first-use race;
//! (3) the same workload under ThreadSanitizer / AddressSanitizer (driver);
//! (4) recreate loop on a storage location right after drop.
#![cfg(not(feature = "stateless"))]

use crate::codec::*;
use crate::common::*;
use crate::model::Model;
use crate::rlnx::*;
use crate::trees::poseidon_h;
use ark_bn254::Fr;
use rand::Rng;
use rln::public::RLN;
use serde_json::json;
use std::io::Cursor;
use std::sync::atomic::{AtomicU64, Ordering};
use std::sync::{Arc, Barrier};

fn arg(args: &[String], name: &str) -> Option<String> {
    args.iter().position(|a| a == name).and_then(|i| args.get(i + 1).cloned())
}

// ---------------------------------------------------------------------------------------------
// (1) transcript of a fixed workload (run in a child process per pool size)
// ---------------------------------------------------------------------------------------------

/// `vh c18-transcript <seed> <dir> <corpus file> <n_proofs>`: prints lines "T <item> <sha256>" and finally "DIGEST <sha256>"
pub fn transcript_child(args: &[String]) -> i32 {
    let seed: u64 = args[2].parse().unwrap();
    let dir = &args[3];
    let corpus = &args[4];
    let n_proofs: usize = args[5].parse().unwrap();
    let mut rng = rng_for(seed, "c18-transcript");
    let mut lines: Vec<String> = vec![];
    let path = format!("{dir}/db-{}", std::process::id());
    let cfg = format!(r#"{{"tree_config": {{"path": "{path}", "temporary": false, "cache_capacity": 50000000}}}}"#);
    let mut r = match RLN::new(20, Cursor::new(cfg)) {
        Ok(r) => r,
        Err(e) => {
            println!("ERROR RLN::new {e}");
            return 3;
        }
    };
    let root_hex = |r: &RLN| {
        let mut o = vec![];
        let _ = r.get_root(&mut o);
        hex(&o)
    };
    // batch updates on the persistent tree (pmtree recomputes them with rayon)
    let secret = rand_fr(&mut rng);
    let rc = rate_commitment_ref(&secret, &Fr::from(100u64));
    for k in 0..12 {
        let n = [1usize, 2, 7, 64, 300, 1000][k % 6];
        let start = [0usize, 5, 900, 1000, 2048, 70][k % 6];
        let leaves: Vec<Fr> = (0..n).map(|_| rand_fr(&mut rng)).collect();
        let res = r.set_leaves_from(start, Cursor::new(enc_vec_fr(&leaves))).is_ok();
        lines.push(format!("batch{k} {res} {}", root_hex(&r)));
        let leaves: Vec<Fr> = (0..(k % 3)).map(|_| rand_fr(&mut rng)).collect();
        let mut rm: Vec<u8> = (0..(k % 4)).map(|j| (start.min(250) + j) as u8).collect();
        if !leaves.is_empty() {
            rm.truncate(leaves.len()); // removals inside the written range (the well-defined batch shape)
        }
        let s2 = rm.first().map(|x| *x as usize).unwrap_or(start.min(250));
        let res = r.atomic_operation(s2, Cursor::new(enc_vec_fr(&leaves)), Cursor::new(enc_vec_u8(&rm))).is_ok();
        lines.push(format!("atomic{k} {res} {}", root_hex(&r)));
    }
    // structured batches: repeated, mirrored and default values inside one parallel batch (equal subtrees, the pair
    // (a,b) in one half and (b,a) in the other, (x,0)/(0,x)), so that anything a worker remembers between two hashes
    // of one batch -- and therefore the split of the batch over the pool -- can show in the root
    {
        let a = rand_fr(&mut rng);
        let b = rand_fr(&mut rng);
        let c = rand_fr(&mut rng);
        let z = Fr::from(0u64);
        let pats: Vec<(usize, Vec<Fr>)> = vec![
            (4096, (0..2048).map(|i| if (i < 1024) == (i % 2 == 0) { a } else { b }).collect()),
            (8192, vec![c; 1024]),
            (10_000, (0..1500).map(|_| [a, b, c][rng.gen_range(0..3usize)]).collect()),
            (12_288, (0..512).map(|i| if (i / 2) % 2 == 0 { [a, z][i % 2] } else { [z, a][i % 2] }).collect()),
            (16_384, (0..4096).map(|i| [a, b, b, a][(i + i / 1024) % 4]).collect()),
            (4096 + 512, (0..1024).map(|i| if i % 2 == 0 { b } else { a }).collect()),
            // big batches whose length no small worker count divides (a split of the request over 2..7 workers leaves
            // a shorter last block), random values
            (20_000, (0..5000).map(|_| rand_fr(&mut rng)).collect()),
            (26_000, (0..2049).map(|_| rand_fr(&mut rng)).collect()),
            (30_000, (0..7919).map(|_| rand_fr(&mut rng)).collect()),
            (40_001, (0..3001).map(|i| if i % 3 == 0 { z } else { rand_fr(&mut rng) }).collect()),
        ];
        for (k, (start, leaves)) in pats.iter().enumerate() {
            let res = r.set_leaves_from(*start, Cursor::new(enc_vec_fr(leaves))).is_ok();
            lines.push(format!("structured{k} {res} {} count={}", root_hex(&r), r.leaves_set()));
        }
        // the same through the batch-update and batch-initialisation entry points (on a second tree)
        {
            let big: Vec<Fr> = (0..4999).map(|_| rand_fr(&mut rng)).collect();
            let res = r.atomic_operation(50_000, Cursor::new(enc_vec_fr(&big)), Cursor::new(enc_vec_u8(&[]))).is_ok();
            lines.push(format!("structured-atomic {res} {} count={}", root_hex(&r), r.leaves_set()));
            if let Ok(mut r2) = RLN::new(14, Cursor::new("{}".to_string())) {
                let res = r2.init_tree_with_leaves(Cursor::new(enc_vec_fr(&big[..4097]))).is_ok();
                lines.push(format!("structured-init {res} {} count={}", root_hex(&r2), r2.leaves_set()));
                let mut lv = vec![];
                let _ = r2.get_leaf(4096, &mut lv);
                lines.push(format!("structured-init-last-leaf {}", hex(&lv)));
            }
        }
        // removals which leave (x,0) and (0,x) pairs behind
        let _ = r.set_leaves_from(0, Cursor::new(enc_vec_fr(&vec![a; 256])));
        let rm: Vec<u8> = (0..100).map(|i| (2 * i + i / 50) as u8).collect();
        let res = r.atomic_operation(0, Cursor::new(enc_vec_fr(&[])), Cursor::new(enc_vec_u8(&rm))).is_ok();
        lines.push(format!("structured-removals {res} {}", root_hex(&r)));
    }
    let _ = r.set_leaf(4242, Cursor::new(enc_fr(&rc)));
    lines.push(format!("member {}", root_hex(&r)));
    // witness calculation and proof values
    for k in 0..6u64 {
        let sig = rand_bytes(&mut rng, 20);
        let req = enc_prove_request(&secret, 4242, &Fr::from(100u64), &Fr::from(k), &Fr::from(9u64), &sig);
        let wb = r.get_serialized_rln_witness(Cursor::new(req.clone())).unwrap_or_default();
        lines.push(format!("witness{k} {}", crate::noderef::sha256_hex(&wb)));
        if let Some(w) = dec_witness(&wb) {
            let full = rln::circuit::calculate_rln_witness(named_inputs(&w), rln::circuit::graph_from_folder());
            lines.push(format!("graphwitness{k} {}", crate::noderef::digest_frs(&full)));
            if let Ok((zw, _)) = rln::protocol::deserialize_witness(&wb) {
                if let Ok(pv) = rln::protocol::proof_values_from_witness(&zw) {
                    lines.push(format!("values{k} {}", hex(&rln::protocol::serialize_proof_values(&pv))));
                }
            }
        }
        if (k as usize) < n_proofs {
            let mut msg = vec![];
            let ok = r.generate_rln_proof(Cursor::new(req), &mut msg).is_ok();
            let v = if ok { r.verify_rln_proof(Cursor::new(enc_verify_request(&msg, &sig))).unwrap_or(false) } else { false };
            // proof bytes are randomised: only the value bytes and the verdicts enter the transcript
            lines.push(format!("proof{k} {ok} {v} {}", if msg.len() == 288 { hex(&msg[128..]) } else { "-".into() }));
        }
    }
    // verification of a fixed corpus (valid and invalid messages produced by the parent)
    if let Ok(b) = std::fs::read(corpus) {
        if let Ok(items) = serde_json::from_slice::<Vec<serde_json::Value>>(&b) {
            for (i, it) in items.iter().enumerate() {
                let req = unhex(it["request"].as_str().unwrap());
                let roots = unhex(it["roots"].as_str().unwrap());
                let v = catch(|| r.verify_with_roots(Cursor::new(req.clone()), Cursor::new(roots.clone())).map_err(|_| ()));
                let v2 = catch(|| r.verify(Cursor::new(req[..req.len().min(288)].to_vec())).map_err(|_| ()));
                lines.push(format!("corpus{i} {:?} {:?}", v.map_err(|_| "panic"), v2.map_err(|_| "panic")));
            }
        }
    }
    let _ = r.flush();
    drop(r);
    let _ = std::fs::remove_dir_all(&path);
    for l in &lines {
        println!("T {l}");
    }
    println!("DIGEST {}", crate::noderef::sha256_hex(lines.join("\n").as_bytes()));
    0
}

fn transcripts(rep: &mut Rep, seed: u64, n_proofs: usize) {
    let me = match std::env::var("VH_SELF").or_else(|_| std::env::current_exe().map(|p| p.to_string_lossy().to_string())) {
        Ok(m) => m,
        Err(_) => {
            rep.inconclusive("cannot locate own executable".to_string());
            return;
        }
    };
    let dir = std::env::temp_dir().join(format!("c18-{}", std::process::id()));
    let _ = std::fs::create_dir_all(&dir);
    let dirs = dir.to_string_lossy().to_string();
    // fixed corpus: valid messages, tampered ones, truncated ones
    let corpus_path = format!("{dirs}/corpus.json");
    {
        let mut rng = rng_for(seed, "c18-corpus");
        let mut items = vec![];
        if let Ok(mut r) = RLN::new(20, Cursor::new("{}".to_string())) {
            let secret = rand_fr(&mut rng);
            let rc = rate_commitment_ref(&secret, &Fr::from(10u64));
            let _ = r.set_leaf(7, Cursor::new(enc_fr(&rc)));
            let mut root = vec![];
            let _ = r.get_root(&mut root);
            for k in 0..3u64 {
                let sig = rand_bytes(&mut rng, 10 + k as usize);
                let req = enc_prove_request(&secret, 7, &Fr::from(10u64), &Fr::from(k), &Fr::from(3u64), &sig);
                let mut msg = vec![];
                if r.generate_rln_proof(Cursor::new(req), &mut msg).is_ok() {
                    let vr = enc_verify_request(&msg, &sig);
                    items.push(json!({"request": hex(&vr), "roots": hex(&root)}));
                    let mut t = vr.clone();
                    t[150] ^= 1;
                    items.push(json!({"request": hex(&t), "roots": hex(&root)}));
                    let mut t = vr.clone();
                    t[5] ^= 0x10;
                    items.push(json!({"request": hex(&t), "roots": hex(&root)}));
                    items.push(json!({"request": hex(&vr), "roots": hex(&rand_bytes(&mut rng, 64))}));
                    items.push(json!({"request": hex(&vr[..200]), "roots": hex(&root)}));
                }
            }
        }
        let _ = std::fs::write(&corpus_path, serde_json::to_vec(&items).unwrap());
        rep.note("corpus_items", json!(items.len()));
    }
    let mut digests: Vec<(String, String, usize)> = vec![];
    // pool sizes given explicitly (powers of two, odd and prime sizes) and - "cpus=N" - taken by the library's
    // dependencies from the machine: the child is confined to N processors and RAYON_NUM_THREADS is not set
    for nt in ["1", "2", "3", "4", "5", "7", "16", "cpus=3", "cpus=6"] {
        let mut cmd = std::process::Command::new(&me);
        cmd.args(["c18-transcript", &seed.to_string(), &dirs, &corpus_path, &n_proofs.to_string()]);
        if let Some(n) = nt.strip_prefix("cpus=") {
            let n: usize = n.parse().unwrap();
            cmd.env_remove("RAYON_NUM_THREADS");
            use std::os::unix::process::CommandExt;
            unsafe {
                cmd.pre_exec(move || {
                    let mut cur: libc::cpu_set_t = std::mem::zeroed();
                    if libc::sched_getaffinity(0, std::mem::size_of::<libc::cpu_set_t>(), &mut cur) != 0 {
                        return Ok(());
                    }
                    let mut set: libc::cpu_set_t = std::mem::zeroed();
                    let mut k = 0;
                    for c in 0..libc::CPU_SETSIZE as usize {
                        if libc::CPU_ISSET(c, &cur) && k < n {
                            libc::CPU_SET(c, &mut set);
                            k += 1;
                        }
                    }
                    libc::sched_setaffinity(0, std::mem::size_of::<libc::cpu_set_t>(), &set);
                    Ok(())
                });
            }
        } else {
            cmd.env("RAYON_NUM_THREADS", nt);
        }
        let out = cmd.output();
        match out {
            Ok(o) if o.status.success() => {
                let s = String::from_utf8_lossy(&o.stdout).to_string();
                let d = s.lines().find_map(|l| l.strip_prefix("DIGEST ")).unwrap_or("").to_string();
                let n = s.lines().filter(|l| l.starts_with("T ")).count();
                rep.evn(n as u64);
                rep.stratum(format!("transcript|threads={nt}"));
                let _ = std::fs::write(format!("{dirs}/transcript-{nt}.txt"), &s);
                digests.push((nt.to_string(), d, n));
            }
            Ok(o) => rep.violation("transcript:child-failed", json!({"threads": nt, "status": format!("{:?}", o.status), "stdout": String::from_utf8_lossy(&o.stdout).chars().take(300).collect::<String>()})),
            Err(e) => rep.inconclusive(format!("spawn: {e}")),
        }
    }
    if digests.len() >= 2 {
        let first = digests[0].clone();
        for d in digests.iter().skip(1) {
            if d.1 != first.1 {
                // locate the first differing line
                let a = std::fs::read_to_string(format!("{dirs}/transcript-{}.txt", first.0)).unwrap_or_default();
                let b = std::fs::read_to_string(format!("{dirs}/transcript-{}.txt", d.0)).unwrap_or_default();
                let diff = a.lines().zip(b.lines()).find(|(x, y)| x != y).map(|(x, y)| json!([x.chars().take(160).collect::<String>(), y.chars().take(160).collect::<String>()]));
                let item = diff.as_ref().and_then(|v| v[0].as_str().map(|s| s.split_whitespace().nth(1).unwrap_or("?").trim_end_matches(char::is_numeric).to_string())).unwrap_or_else(|| "length".into());
                rep.violation(format!("transcript:differs-between-pool-sizes:{item}"), json!({"threads": [first.0, d.0], "first_difference": diff}));
            }
        }
        rep.sample(json!({"transcript_digests": digests.iter().map(|d| json!({"RAYON_NUM_THREADS": d.0, "sha256": d.1, "lines": d.2})).collect::<Vec<_>>()}));
    } else {
        rep.inconclusive("fewer than two transcripts".to_string());
    }
    let _ = std::fs::remove_dir_all(&dir);
}

// ---------------------------------------------------------------------------------------------
// (2) shared-instance monitor
// ---------------------------------------------------------------------------------------------

#[derive(Clone, Debug)]
enum Q {
    VerifyRln(Vec<u8>),
    VerifyRoots(Vec<u8>, Vec<u8>),
    Verify(Vec<u8>),
    Root,
    Leaf(usize),
    Proof(usize),
    Subtree(usize, usize),
    Empties,
    Metadata,
    Hash(Vec<u8>),
    Poseidon(Vec<Fr>),
    SeededKey(Vec<u8>),
    SeededExtKey(Vec<u8>),
    Witness(Witness),
    Recover(Vec<u8>, Vec<u8>),
}

impl Q {
    fn kind(&self) -> &'static str {
        match self {
            Q::VerifyRln(_) => "verify_rln_proof",
            Q::VerifyRoots(..) => "verify_with_roots",
            Q::Verify(_) => "verify",
            Q::Root => "get_root",
            Q::Leaf(_) => "get_leaf",
            Q::Proof(_) => "get_proof",
            Q::Subtree(..) => "get_subtree_root",
            Q::Empties => "get_empty_leaves_indices",
            Q::Metadata => "get_metadata",
            Q::Hash(_) => "hash",
            Q::Poseidon(_) => "poseidon_hash",
            Q::SeededKey(_) => "seeded_key_gen",
            Q::SeededExtKey(_) => "seeded_extended_key_gen",
            Q::Witness(_) => "calculate_rln_witness",
            Q::Recover(..) => "recover_id_secret",
        }
    }
}

fn run_q(r: &RLN, q: &Q, via_ffi: bool) -> Result<Vec<u8>, String> {
    let res = catch(|| -> Vec<u8> {
        let mut o = vec![];
        let b = |x: color_eyre::Result<bool>| match x {
            Ok(true) => vec![1u8],
            Ok(false) => vec![0u8],
            Err(_) => vec![2u8],
        };
        if via_ffi {
            use rln::ffi;
            use std::mem::MaybeUninit;
            let ctx: *const RLN = r;
            let mut ob = MaybeUninit::<ffi::Buffer>::uninit();
            let mut vb = MaybeUninit::<bool>::new(true);
            let bytes = |ok: bool, ob: &MaybeUninit<ffi::Buffer>| if ok { crate::ffiu::read_out(ob) } else { vec![0xEE] };
            let verdict = |ok: bool, vb: &MaybeUninit<bool>| if ok { vec![unsafe { vb.assume_init_read() } as u8] } else { vec![2u8] };
            return match q {
                Q::VerifyRln(m) => {
                    let ok = ffi::verify_rln_proof(ctx, &crate::ffiu::buf(m), vb.as_mut_ptr());
                    verdict(ok, &vb)
                }
                Q::VerifyRoots(m, rs) => {
                    let ok = ffi::verify_with_roots(ctx, &crate::ffiu::buf(m), &crate::ffiu::buf(rs), vb.as_mut_ptr());
                    verdict(ok, &vb)
                }
                Q::Verify(m) => {
                    let ok = ffi::verify(ctx, &crate::ffiu::buf(m), vb.as_mut_ptr());
                    verdict(ok, &vb)
                }
                Q::Root => {
                    let ok = ffi::get_root(ctx, ob.as_mut_ptr());
                    bytes(ok, &ob)
                }
                Q::Proof(i) => {
                    let ok = ffi::get_proof(ctx, *i, ob.as_mut_ptr());
                    bytes(ok, &ob)
                }
                Q::Metadata => {
                    let ok = ffi::get_metadata(ctx, ob.as_mut_ptr());
                    bytes(ok, &ob)
                }
                Q::Hash(x) => {
                    let ok = ffi::hash(&crate::ffiu::buf(x), ob.as_mut_ptr());
                    bytes(ok, &ob)
                }
                Q::Poseidon(v) => {
                    let e = enc_vec_fr(v);
                    let ok = ffi::poseidon_hash(&crate::ffiu::buf(&e), ob.as_mut_ptr());
                    bytes(ok, &ob)
                }
                Q::SeededKey(s) => {
                    let ok = ffi::seeded_key_gen(ctx, &crate::ffiu::buf(s), ob.as_mut_ptr());
                    bytes(ok, &ob)
                }
                Q::SeededExtKey(s) => {
                    let ok = ffi::seeded_extended_key_gen(ctx, &crate::ffiu::buf(s), ob.as_mut_ptr());
                    bytes(ok, &ob)
                }
                Q::Recover(a, c) => {
                    let ok = ffi::recover_id_secret(ctx, &crate::ffiu::buf(a), &crate::ffiu::buf(c), ob.as_mut_ptr());
                    bytes(ok, &ob)
                }
                // not exported with a const context / not exported at all: use the Rust path
                _ => run_q(r, q, false).unwrap_or_else(|_| vec![0xEF]),
            };
        }
        match q {
            Q::VerifyRln(m) => b(r.verify_rln_proof(Cursor::new(m.clone()))),
            Q::VerifyRoots(m, rs) => b(r.verify_with_roots(Cursor::new(m.clone()), Cursor::new(rs.clone()))),
            Q::Verify(m) => b(r.verify(Cursor::new(m.clone()))),
            Q::Root => {
                let _ = r.get_root(&mut o);
                o
            }
            Q::Leaf(i) => {
                if r.get_leaf(*i, &mut o).is_err() {
                    o = vec![0xEE];
                }
                o
            }
            Q::Proof(i) => {
                if r.get_proof(*i, &mut o).is_err() {
                    o = vec![0xEE];
                }
                o
            }
            Q::Subtree(n, i) => {
                if r.get_subtree_root(*n, *i, &mut o).is_err() {
                    o = vec![0xEE];
                }
                o
            }
            Q::Empties => {
                let _ = r.get_empty_leaves_indices(&mut o);
                o
            }
            Q::Metadata => {
                let _ = r.get_metadata(&mut o);
                o
            }
            Q::Hash(x) => {
                let _ = rln::public::hash(Cursor::new(x.clone()), &mut o);
                o
            }
            Q::Poseidon(v) => enc_fr(&rln::hashers::poseidon_hash(v)),
            Q::SeededKey(s) => {
                let _ = r.seeded_key_gen(Cursor::new(s.clone()), &mut o);
                o
            }
            Q::SeededExtKey(s) => {
                let _ = r.seeded_extended_key_gen(Cursor::new(s.clone()), &mut o);
                o
            }
            Q::Witness(w) => crate::noderef::digest_frs(&rln::circuit::calculate_rln_witness(named_inputs(w), rln::circuit::graph_from_folder())).into_bytes(),
            Q::Recover(a, c) => {
                if r.recover_id_secret(Cursor::new(a.clone()), Cursor::new(c.clone()), &mut o).is_err() {
                    o = vec![0xEE];
                }
                o
            }
        }
    });
    res.map_err(|p| format!("panic: {} at {}", p.msg, p.loc))
}

struct Shared {
    r: RLN,
    queries: Vec<Q>,
    expected: Vec<Vec<u8>>,
}

fn build_shared(rep: &mut Rep, seed: u64, n_msgs: usize) -> Option<Shared> {
    let mut rng = rng_for(seed, "c18-shared");
    let mut r = match catch(|| RLN::new(20, Cursor::new("{}".to_string()))) {
        Ok(Ok(r)) => r,
        _ => {
            rep.inconclusive("RLN::new failed".to_string());
            return None;
        }
    };
    let mut m = Model::new(20, poseidon_h, Fr::from(0u64));
    let secret = rand_fr(&mut rng);
    let rc = rate_commitment_ref(&secret, &Fr::from(50u64));
    let leaves: Vec<Fr> = (0..40).map(|_| rand_fr(&mut rng)).collect();
    let _ = r.set_leaves_from(0, Cursor::new(enc_vec_fr(&leaves)));
    m.write_range(0, &leaves);
    let _ = r.set_leaf(11, Cursor::new(enc_fr(&rc)));
    m.set(11, rc);
    let _ = r.delete_leaf(5);
    m.delete(5);
    let _ = r.set_leaf(777_777, Cursor::new(enc_fr(&leaves[0])));
    m.set(777_777, leaves[0]);
    let _ = r.set_metadata(b"c18 metadata");
    let mut root = vec![];
    let _ = r.get_root(&mut root);
    let mut qs: Vec<Q> = vec![Q::Root, Q::Empties, Q::Metadata];
    let mut msgs: Vec<(Vec<u8>, Vec<u8>)> = vec![];
    for k in 0..n_msgs {
        let sig = rand_bytes(&mut rng, 5 + k);
        let req = enc_prove_request(&secret, 11, &Fr::from(50u64), &Fr::from((k % 2) as u64), &Fr::from(5u64), &sig);
        let mut msg = vec![];
        if r.generate_rln_proof(Cursor::new(req), &mut msg).is_ok() {
            msgs.push((msg, sig));
        }
    }
    for (msg, sig) in &msgs {
        let vr = enc_verify_request(msg, sig);
        qs.push(Q::VerifyRln(vr.clone()));
        qs.push(Q::VerifyRoots(vr.clone(), root.clone()));
        qs.push(Q::VerifyRoots(vr.clone(), rand_bytes(&mut rng, 96)));
        qs.push(Q::Verify(msg.clone()));
        let mut t = vr.clone();
        t[140] ^= 2;
        qs.push(Q::VerifyRln(t));
        let mut t = msg.clone();
        t[17] ^= 4;
        qs.push(Q::Verify(t));
        qs.push(Q::VerifyRln(vr[..vr.len() - 3].to_vec()));
    }
    if msgs.len() >= 2 {
        qs.push(Q::Recover(msgs[0].0.clone(), msgs[1].0.clone()));
        qs.push(Q::Recover(msgs[0].0.clone(), msgs[0].0.clone()));
    }
    for i in [0usize, 5, 11, 39, 40, 777_777, (1 << 20) - 1, 1 << 20] {
        qs.push(Q::Leaf(i));
        qs.push(Q::Proof(i));
        qs.push(Q::Subtree(rng.gen_range(0..=20), i.min((1 << 20) - 1)));
    }
    for k in 0..8 {
        qs.push(Q::Hash(rand_bytes(&mut rng, k * 40)));
        qs.push(Q::Poseidon((0..=(k % 8)).map(|_| rand_fr(&mut rng)).collect()));
        qs.push(Q::SeededKey(rand_bytes(&mut rng, k * 3)));
        qs.push(Q::SeededExtKey(rand_bytes(&mut rng, k * 5)));
    }
    for k in 0..3u64 {
        let (path, bits) = m.proof(11);
        qs.push(Q::Witness(Witness { secret, limit: Fr::from(50u64), msg_id: Fr::from(k), path, bits, x: rand_fr(&mut rng), ext: rand_fr(&mut rng) }));
    }
    // sequential twins
    let mut expected = vec![];
    for q in &qs {
        match run_q(&r, q, false) {
            Ok(v) => expected.push(v),
            Err(e) => {
                rep.inconclusive(format!("sequential call {} failed: {e}", q.kind()));
                expected.push(vec![0xFF, 0xFF]);
            }
        }
    }
    // sanity: the valid messages are accepted sequentially (otherwise the comparison is vacuous)
    let accepted = qs.iter().zip(expected.iter()).filter(|(q, e)| matches!(q, Q::VerifyRln(_)) && **e == vec![1u8]).count();
    rep.note("sequentially_accepted_messages", json!(accepted));
    if accepted == 0 && n_msgs > 0 {
        rep.inconclusive("no message accepted sequentially".to_string());
    }
    Some(Shared { r, queries: qs, expected })
}

fn hammer(rep: &mut Rep, sh: &Shared, threads: usize, calls_per_thread: usize, seed: u64, via_ffi: bool, tag: &str) {
    let barrier = Arc::new(Barrier::new(threads));
    let inflight: Vec<AtomicU64> = (0..16).map(|_| AtomicU64::new(0)).collect();
    let kinds: Vec<&'static str> = {
        let mut k: Vec<&'static str> = sh.queries.iter().map(|q| q.kind()).collect();
        k.sort();
        k.dedup();
        k
    };
    let kind_idx = |k: &str| kinds.iter().position(|x| *x == k).unwrap_or(0) % 16;
    let t0 = std::time::Instant::now();
    par_shards(rep, threads, |t, r| {
        let mut rng = rng_for(seed, &format!("c18-hammer-{tag}-{t}"));
        barrier.wait();
        for c in 0..calls_per_thread {
            let qi = if c == 0 { t % sh.queries.len() } else { rng.gen_range(0..sh.queries.len()) };
            let q = &sh.queries[qi];
            // heavy calls less often
            if matches!(q, Q::Witness(_)) && c % 8 != 0 {
                continue;
            }
            if rng.gen_range(0..6) == 0 {
                std::thread::yield_now();
            }
            let ki = kind_idx(q.kind());
            // overlaps actually observed: which other call kinds are in flight right now
            for (j, a) in inflight.iter().enumerate() {
                if a.load(Ordering::Relaxed) > 0 {
                    r.stratum(format!("overlap|{}|{}", q.kind(), kinds.get(j).unwrap_or(&"?")));
                }
            }
            inflight[ki].fetch_add(1, Ordering::Relaxed);
            let got = run_q(&sh.r, q, via_ffi);
            inflight[ki].fetch_sub(1, Ordering::Relaxed);
            r.ev();
            match got {
                Ok(v) => {
                    if v != sh.expected[qi] {
                        r.violation(format!("shared-instance{}:{}:differs-from-sequential", if via_ffi { "(ffi)" } else { "" }, q.kind()), json!({"thread": t, "call_no": c, "query": qi, "expected": hex_short(&sh.expected[qi]), "got": hex_short(&v), "threads": threads}));
                    }
                }
                Err(e) => r.violation(format!("shared-instance{}:{}:panic", if via_ffi { "(ffi)" } else { "" }, q.kind()), json!({"thread": t, "error": e})),
            }
        }
    });
    rep.countn(&format!("hammer_ms|{tag}"), t0.elapsed().as_millis() as u64);
    rep.countn("concurrent_calls", (threads * calls_per_thread) as u64);
}

// ---------------------------------------------------------------------------------------------
// (2e) same-kind bursts with a progress monitor
// ---------------------------------------------------------------------------------------------

/// The mixed workload rarely has many threads inside the SAME method at the same moment. Here, per call kind, `threads`
/// barrier-released threads all make the same call (the query of that kind which is accepted sequentially, if there
/// is one) `reps` times. A watcher thread counts completed calls: the workload is bounded (threads x reps calls of
/// milliseconds each), so if not a single call completes for 120 s while others are outstanding, the calls are
/// waiting for each other - reported through the marker line and exit code 86, which the driver turns into the
/// violation `shared-instance:no-progress:<kind>` (the stuck threads cannot be joined).
fn bursts(rep: &mut Rep, sh: &Shared, threads: usize, reps: usize) {
    use std::sync::atomic::AtomicBool;
    let mut by_kind: std::collections::BTreeMap<&'static str, Vec<usize>> = Default::default();
    for (i, q) in sh.queries.iter().enumerate() {
        by_kind.entry(q.kind()).or_default().push(i);
    }
    for (kind, idxs) in by_kind {
        let qi = idxs.iter().cloned().find(|i| sh.expected[*i] == vec![1u8]).unwrap_or(idxs[0]);
        let q = &sh.queries[qi];
        let reps = if matches!(q, Q::Witness(_)) { reps.min(2) } else { reps };
        let done = AtomicU64::new(0);
        let finished = AtomicBool::new(false);
        let barrier = Barrier::new(threads);
        let total = (threads * reps) as u64;
        let mut bad: Vec<serde_json::Value> = vec![];
        std::thread::scope(|s| {
            s.spawn(|| {
                let (mut last, mut idle) = (0u64, 0u32);
                while !finished.load(Ordering::SeqCst) {
                    std::thread::sleep(std::time::Duration::from_millis(250));
                    let d = done.load(Ordering::SeqCst);
                    if d == last {
                        idle += 1;
                    } else {
                        idle = 0;
                        last = d;
                    }
                    if idle >= 480 && d < total {
                        eprintln!("[vh] NO-PROGRESS kind={kind} threads={threads} completed={d} of={total} idle_s=120");
                        std::process::exit(86);
                    }
                }
            });
            let hs: Vec<_> = (0..threads)
                .map(|t| {
                    let (done, barrier) = (&done, &barrier);
                    s.spawn(move || {
                        let mut bad = vec![];
                        barrier.wait();
                        for c in 0..reps {
                            let got = run_q(&sh.r, q, false);
                            done.fetch_add(1, Ordering::SeqCst);
                            match got {
                                Ok(v) if v == sh.expected[qi] => {}
                                Ok(v) => bad.push(json!({"thread": t, "call_no": c, "expected": hex_short(&sh.expected[qi]), "got": hex_short(&v)})),
                                Err(e) => bad.push(json!({"thread": t, "call_no": c, "panic": e})),
                            }
                        }
                        bad
                    })
                })
                .collect();
            for h in hs {
                if let Ok(b) = h.join() {
                    bad.extend(b);
                }
            }
            finished.store(true, Ordering::SeqCst);
        });
        rep.evn(total);
        rep.stratum(format!("burst|{kind}|threads={threads}|{}", if sh.expected[qi] == vec![1u8] { "accepted-sequentially" } else { "other" }));
        for b in bad.into_iter().take(3) {
            rep.violation(format!("shared-instance:same-kind-burst:{kind}:differs-from-sequential"), b);
        }
    }
}

// ---------------------------------------------------------------------------------------------
// (2b) storm of cheap pure calls: many threads walk over the same few inputs at a high call rate
// ---------------------------------------------------------------------------------------------

/// The shared-instance monitor mixes cheap and expensive calls, so two cheap calls on related inputs rarely
/// overlap by nanoseconds. Here 2..16 threads issue only cheap pure calls (Poseidon through three entry
/// points, hash-to-field, seeded key derivation) over a pool of a few related inputs, each compared with the
/// from-spec reference value computed beforehand.
fn storm(rep: &mut Rep, seed: u64, threads: usize, calls_per_thread: usize) {
    use crate::refhash::*;
    let mut rng = rng_for(seed, "c18-storm");
    let a = rand_fr(&mut rng);
    let b = rand_fr(&mut rng);
    let c = rand_fr(&mut rng);
    let pool: Vec<Vec<Fr>> = vec![vec![a], vec![a, b], vec![b, a], vec![a, b, c], vec![c], vec![a, b], vec![a, a], vec![b, a, c, a]];
    let pool_ref: Vec<Fr> = pool.iter().map(|v| poseidon_ref(v)).collect();
    let seeds: Vec<Vec<u8>> = vec![b"s".to_vec(), b"seed".to_vec(), rand_bytes(&mut rng, 32), rand_bytes(&mut rng, 33)];
    let seeds_ref: Vec<(Fr, Fr)> = seeds.iter().map(|x| seeded_keygen_ref(x)).collect();
    let seeds_ext_ref: Vec<(Fr, Fr, Fr, Fr)> = seeds.iter().map(|x| extended_seeded_keygen_ref(x)).collect();
    let h2f_ref: Vec<Fr> = seeds.iter().map(|x| hash_to_field_ref(x)).collect();
    let inflight = AtomicU64::new(0);
    let barrier = Arc::new(Barrier::new(threads));
    let t0 = std::time::Instant::now();
    par_shards(rep, threads, |t, r| {
        use zerokit_utils::Hasher;
        let mut lr = rng_for(seed, &format!("c18-storm-{threads}-{t}"));
        barrier.wait();
        let mut overlapped = 0u64;
        for k in 0..calls_per_thread {
            // all threads walk over the pool in the same order with a small thread-specific phase, so that
            // equal and prefix-related inputs are in flight at the same time
            let i = (k + (t % 3)) % pool.len();
            let kind = if k % 97 == 0 { 3 + lr.gen_range(0..3usize) } else { k / pool.len() % 3 };
            if inflight.fetch_add(1, Ordering::Relaxed) > 0 {
                overlapped += 1;
            }
            let res = catch(|| -> Option<(&'static str, String)> {
                match kind {
                    0 => (rln::hashers::poseidon_hash(&pool[i]) != pool_ref[i]).then(|| ("poseidon_hash", format!("pool[{i}]"))),
                    1 => (rln::hashers::PoseidonHash::hash(&pool[i]) != pool_ref[i]).then(|| ("PoseidonHash::hash", format!("pool[{i}]"))),
                    2 => {
                        let mut o = vec![];
                        let _ = rln::public::poseidon_hash(Cursor::new(enc_vec_fr(&pool[i])), &mut o);
                        (o != enc_fr(&pool_ref[i])).then(|| ("public::poseidon_hash", format!("pool[{i}]")))
                    }
                    3 => {
                        let j = i % seeds.len();
                        (rln::protocol::seeded_keygen(&seeds[j]) != seeds_ref[j]).then(|| ("seeded_keygen", format!("seed[{j}]")))
                    }
                    4 => {
                        let j = i % seeds.len();
                        (rln::protocol::extended_seeded_keygen(&seeds[j]) != seeds_ext_ref[j]).then(|| ("extended_seeded_keygen", format!("seed[{j}]")))
                    }
                    _ => {
                        let j = i % seeds.len();
                        (rln::hashers::hash_to_field(&seeds[j]) != h2f_ref[j]).then(|| ("hash_to_field", format!("seed[{j}]")))
                    }
                }
            });
            inflight.fetch_sub(1, Ordering::Relaxed);
            r.ev();
            match res {
                Ok(None) => {}
                Ok(Some((what, input))) => r.violation(format!("storm:{what}:differs-from-reference"), json!({"threads": threads, "thread": t, "call_no": k, "input": input})),
                Err(p) => r.violation("storm:panic".to_string(), json!({"threads": threads, "thread": t, "panic": p.msg, "at": p.loc})),
            }
        }
        r.countn(&format!("storm_calls_overlapping_another_call|threads={threads}"), overlapped);
        // how much real overlap there was is what makes this leg meaningful
        let pct = if calls_per_thread > 0 { overlapped * 100 / calls_per_thread as u64 } else { 0 };
        r.stratum(format!("storm|threads={threads}|overlap-decile={}", pct / 10));
    });
    rep.countn(&format!("storm_ms|threads={threads}"), t0.elapsed().as_millis() as u64);
    rep.countn("storm_calls", (threads * calls_per_thread) as u64);
}

// ---------------------------------------------------------------------------------------------
// (2c) cold shared instance: the very first calls on a fresh instance arrive from many threads at once
// ---------------------------------------------------------------------------------------------

/// The shared-instance monitor answers every query sequentially first, which also warms up anything an instance
/// initialises lazily. Here a fresh instance receives its first calls from `threads` threads released by a barrier;
/// the expected answers come from a twin instance in the same (empty) state that was queried sequentially.
fn cold_instances(rep: &mut Rep, sh: &Shared, n_instances: usize, threads: usize, seed: u64) {
    let mk = || match catch(|| RLN::new(20, Cursor::new("{}".to_string()))) {
        Ok(Ok(r)) => Some(r),
        _ => None,
    };
    let Some(twin) = mk() else {
        rep.inconclusive("RLN::new failed (cold-instance leg)".to_string());
        return;
    };
    // tree-independent and empty-tree queries; the heavy witness calculation is left to the other legs
    let qidx: Vec<usize> = (0..sh.queries.len()).filter(|i| !matches!(sh.queries[*i], Q::Witness(_))).collect();
    let mut expected: Vec<Option<Vec<u8>>> = vec![None; sh.queries.len()];
    for &qi in &qidx {
        expected[qi] = run_q(&twin, &sh.queries[qi], false).ok();
    }
    let accepted: Vec<usize> = qidx.iter().cloned().filter(|qi| matches!(sh.queries[*qi], Q::Verify(_) | Q::VerifyRoots(..)) && expected[*qi] == Some(vec![1u8])).collect();
    rep.note("cold_instance_queries_expected_true", json!(accepted.len()));
    if accepted.is_empty() {
        rep.inconclusive("cold-instance leg: no tree-independent query is accepted by the twin".to_string());
        return;
    }
    for k in 0..n_instances {
        let Some(r) = mk() else {
            rep.inconclusive("RLN::new failed (cold-instance leg)".to_string());
            return;
        };
        let barrier = Arc::new(Barrier::new(threads));
        let via_ffi = k % 3 == 2;
        par_shards(rep, threads, |t, rp| {
            let mut rng = rng_for(seed, &format!("c18-cold-{k}-{t}"));
            // first call: an accepted verification for most threads, any other query kind for the rest
            let mut plan: Vec<usize> = vec![if t % 4 == 3 { qidx[rng.gen_range(0..qidx.len())] } else { accepted[(t + k) % accepted.len()] }];
            for _ in 0..3 {
                plan.push(qidx[rng.gen_range(0..qidx.len())]);
            }
            barrier.wait();
            for (j, qi) in plan.iter().enumerate() {
                let q = &sh.queries[*qi];
                let got = run_q(&r, q, via_ffi);
                rp.ev();
                if j == 0 {
                    rp.stratum(format!("cold-instance|first-call={}|ffi={via_ffi}", q.kind()));
                }
                match (got, &expected[*qi]) {
                    (Ok(v), Some(e)) => {
                        if &v != e {
                            rp.violation(format!("cold-shared-instance{}:{}:differs-from-sequential", if via_ffi { "(ffi)" } else { "" }, q.kind()), json!({"instance": k, "thread": t, "call_no": j, "expected": hex_short(e), "got": hex_short(&v), "threads": threads}));
                        }
                    }
                    (Err(e), _) => rp.violation(format!("cold-shared-instance{}:{}:panic", if via_ffi { "(ffi)" } else { "" }, q.kind()), json!({"instance": k, "thread": t, "error": e})),
                    (Ok(_), None) => {}
                }
            }
        });
        rep.count("cold_instances");
    }
}

// ---------------------------------------------------------------------------------------------
// (2d) two witness graphs in use at the same time
// ---------------------------------------------------------------------------------------------

/// The library takes the witness graph as an argument (custom circuits: `new_with_params`). Threads that work with
/// different graphs at the same time must not see each other's graph: the bundled graph and a variant of it with two
/// witness signals exchanged are evaluated concurrently and compared with their sequential results.
fn two_graphs(rep: &mut Rep, seed: u64, threads: usize, calls_per_thread: usize) {
    use rln::circuit::iden3calc::storage::{deserialize_witnesscalc_graph, serialize_witnesscalc_graph};
    let ga: &'static [u8] = rln::circuit::graph_from_folder();
    let gb: Vec<u8> = match catch(|| -> Result<Vec<u8>, String> {
        let (nodes, mut signals, inputs) = deserialize_witnesscalc_graph(Cursor::new(ga)).map_err(|e| e.to_string())?;
        let n = signals.len();
        if n < 8 {
            return Err("too few signals".into());
        }
        signals.swap(1, n - 1);
        signals.swap(2, n / 2);
        let mut out = vec![];
        serialize_witnesscalc_graph(&mut out, &nodes, &signals, &inputs).map_err(|e| e.to_string())?;
        Ok(out)
    }) {
        Ok(Ok(b)) => b,
        other => {
            rep.inconclusive(format!("two-graphs leg: could not build the second graph: {:?}", other.map_err(|p| p.msg)));
            return;
        }
    };
    let mut rng = rng_for(seed, "c18-two-graphs");
    let mut m = Model::new(20, poseidon_h, Fr::from(0u64));
    let secret = rand_fr(&mut rng);
    m.set(5, rate_commitment_ref(&secret, &Fr::from(50u64)));
    let (path, bits) = m.proof(5);
    let ws: Vec<Witness> = (0..4u64).map(|k| Witness { secret, limit: Fr::from(50u64), msg_id: Fr::from(k), path: path.clone(), bits: bits.clone(), x: rand_fr(&mut rng), ext: rand_fr(&mut rng) }).collect();
    let eval = |w: &Witness, g: &[u8]| catch(|| crate::noderef::digest_frs(&rln::circuit::calculate_rln_witness(named_inputs(w), g)));
    let mut expected: Vec<[String; 2]> = vec![];
    for w in &ws {
        match (eval(w, ga), eval(w, &gb)) {
            (Ok(a), Ok(b)) => expected.push([a, b]),
            _ => {
                rep.inconclusive("two-graphs leg: sequential evaluation failed".to_string());
                return;
            }
        }
    }
    if expected.iter().all(|e| e[0] == e[1]) {
        rep.inconclusive("two-graphs leg: the variant graph gives the same witnesses (vacuous)".to_string());
        return;
    }
    let barrier = Arc::new(Barrier::new(threads));
    let gbr: &[u8] = &gb;
    par_shards(rep, threads, |t, r| {
        barrier.wait();
        for k in 0..calls_per_thread {
            // half of the threads start on each graph; every thread alternates now and then
            let which = (t + k / 3) % 2;
            let wi = (t + k) % ws.len();
            let got = eval(&ws[wi], if which == 0 { ga } else { gbr });
            r.ev();
            match got {
                Ok(d) if d == expected[wi][which] => {}
                Ok(_) => r.violation("two-graphs:witness-differs-from-sequential".to_string(), json!({"thread": t, "call_no": k, "graph": if which == 0 { "bundled" } else { "variant" }, "threads": threads})),
                Err(p) => r.violation("two-graphs:panic".to_string(), json!({"thread": t, "panic": p.msg, "at": p.loc})),
            }
        }
        r.stratum(format!("two-graphs|threads={threads}|thread-parity={}", t % 2));
    });
    rep.countn("two_graph_evaluations", (threads * calls_per_thread) as u64);
}

/// `vh c18-firstuse <seed>`: fresh process; N threads make their first call simultaneously on a new instance
pub fn firstuse_child(args: &[String]) -> i32 {
    let seed: u64 = args[2].parse().unwrap();
    install_panic_hook();
    let threads = 12;
    let barrier = Arc::new(Barrier::new(threads));
    // nothing in this process has touched ZKEY / POSEIDON yet; every thread creates its own instance and
    // hashes / derives keys at the same time
    let results: Vec<(String, String)> = std::thread::scope(|s| {
        let hs: Vec<_> = (0..threads)
            .map(|t| {
                let barrier = barrier.clone();
                s.spawn(move || {
                    barrier.wait();
                    let mut out = String::new();
                    let seedb = seed.to_le_bytes();
                    if t % 3 == 0 {
                        match catch(|| RLN::new(20, Cursor::new("{}".to_string()))) {
                            Ok(Ok(r)) => {
                                let mut o = vec![];
                                let _ = r.get_root(&mut o);
                                out.push_str(&format!("root={} ", hex(&o)));
                                let mut o = vec![];
                                let _ = r.seeded_key_gen(Cursor::new(seedb.to_vec()), &mut o);
                                out.push_str(&format!("key={} ", hex(&o)));
                            }
                            _ => out.push_str("RLN::new failed "),
                        }
                    } else if t % 3 == 1 {
                        let v: Vec<Fr> = (0..(1 + t % 8)).map(|i| Fr::from(seed + i as u64)).collect();
                        out.push_str(&format!("poseidon={} ", catch(|| fr_s(&rln::hashers::poseidon_hash(&v))).unwrap_or_else(|p| p.msg)));
                    } else {
                        let (a, b) = rln::protocol::seeded_keygen(&seedb);
                        out.push_str(&format!("skey={}/{} ", fr_s(&a), fr_s(&b)));
                    }
                    (format!("{}", t % 3 * 100 + if t % 3 == 1 { t % 8 } else { 0 }), out)
                })
            })
            .collect();
        hs.into_iter().map(|h| h.join().unwrap()).collect()
    });
    // threads with the same job must have produced the same text
    let mut by_job: std::collections::BTreeMap<String, Vec<String>> = Default::default();
    for (j, o) in results {
        by_job.entry(j).or_default().push(o);
    }
    let mut ok = true;
    for (j, v) in &by_job {
        if v.iter().any(|x| x != &v[0]) {
            ok = false;
            println!("MISMATCH job {j}: {:?}", v);
        }
    }
    // and they must equal the sequential results computed now
    let seedb = seed.to_le_bytes();
    let (a, b) = rln::protocol::seeded_keygen(&seedb);
    if let Some(v) = by_job.get("200") {
        if v[0] != format!("skey={}/{} ", fr_s(&a), fr_s(&b)) {
            ok = false;
            println!("MISMATCH seeded_keygen vs sequential");
        }
    }
    println!("{}", if ok { "FIRSTUSE-OK" } else { "FIRSTUSE-BAD" });
    0
}

// ---------------------------------------------------------------------------------------------
// (4) recreate loop
// ---------------------------------------------------------------------------------------------

#[cfg(any(feature = "pm", feature = "full"))]
fn recreate_loop(rep: &mut Rep, seed: u64, cycles: usize) {
    use zerokit_utils::pm_tree::sled_adapter::verif_hooks as hooks;
    let mut rng = rng_for(seed, "c18-recreate");
    let dir = std::env::temp_dir().join(format!("c18-recreate-{}", std::process::id()));
    let _ = std::fs::remove_dir_all(&dir);
    let path = format!("{}/db", dir.display());
    let depth = 10;
    let cfg = format!(r#"{{"tree_config": {{"path": "{path}", "temporary": false, "cache_capacity": 10000000, "flush_every_ms": 50}}}}"#);
    let mut m = Model::new(depth, poseidon_h, Fr::from(0u64));
    let mut max_ms = 0u128;
    let retries0 = hooks::OPEN_RETRIES.load(Ordering::SeqCst);
    for c in 0..cycles {
        let t0 = std::time::Instant::now();
        let r = catch(|| RLN::new(depth, Cursor::new(cfg.clone())));
        let el = t0.elapsed().as_millis();
        max_ms = max_ms.max(el);
        rep.ev();
        rep.stratum(format!("recreate|elapsed<{}ms", if el < 5 { 5 } else if el < 50 { 50 } else if el < 500 { 500 } else { 5000 }));
        let mut r = match r {
            Ok(Ok(r)) => r,
            Ok(Err(e)) => {
                rep.violation("recreate:open-failed-right-after-drop", json!({"cycle": c, "error": e.to_string().lines().next().unwrap_or("").to_string(), "elapsed_ms": el as u64}));
                continue;
            }
            Err(p) => {
                rep.violation("recreate:open-panicked", json!({"cycle": c, "panic": p.msg}));
                continue;
            }
        };
        if el > 120_000 {
            rep.inconclusive("recreate watchdog: more than 120 s for one open".to_string());
        }
        // state must be the model's
        let mut root = vec![];
        let _ = r.get_root(&mut root);
        let count = r.leaves_set();
        if dec_frs(&root, 1).map(|v| v[0]) != Some(m.root()) || count != m.mark {
            rep.violation("recreate:state-lost-or-changed", json!({"cycle": c, "model_count": m.mark, "count": count, "elapsed_ms": el as u64}));
            // resynchronise the model to keep going
            m = Model::new(depth, poseidon_h, Fr::from(0u64));
            drop(r);
            let _ = std::fs::remove_dir_all(&dir);
            continue;
        }
        // write something, sometimes flush, drop immediately
        for _ in 0..rng.gen_range(1..4) {
            let i = rng.gen_range(0..(1usize << depth));
            let v = rand_fr(&mut rng);
            if r.set_leaf(i, Cursor::new(enc_fr(&v))).is_ok() {
                m.set(i, v);
            }
        }
        if c % 3 == 0 {
            let leaves: Vec<Fr> = (0..8).map(|_| rand_fr(&mut rng)).collect();
            if r.set_leaves_from(0, Cursor::new(enc_vec_fr(&leaves))).is_ok() {
                m.write_range(0, &leaves);
            }
        }
        // an acknowledged flush before the drop: the next instance must see everything
        if r.flush().is_err() {
            rep.violation("recreate:flush-failed", json!({"cycle": c}));
        }
        drop(r);
    }
    // hostile variant: the previous instance is still alive in another thread and is dropped only X ms after the
    // new open has started (a destructor still running); the open must wait and then see the model's state
    for (k, hold_ms) in [5u64, 40, 150, 400, 700].iter().enumerate() {
        if cycles < 30 && k >= 4 {
            break;
        }
        let r = match catch(|| RLN::new(depth, Cursor::new(cfg.clone()))) {
            Ok(Ok(r)) => r,
            _ => {
                rep.violation("recreate:open-failed-right-after-drop", json!({"leg": "hostile-setup"}));
                break;
            }
        };
        let mut r = r;
        let i = rng.gen_range(0..(1usize << depth));
        let v = rand_fr(&mut rng);
        if r.set_leaf(i, Cursor::new(enc_fr(&v))).is_ok() {
            m.set(i, v);
        }
        let _ = r.flush();
        let hold = *hold_ms;
        let holder = std::thread::spawn(move || {
            std::thread::sleep(std::time::Duration::from_millis(hold));
            drop(r);
        });
        let t0 = std::time::Instant::now();
        let r2 = catch(|| RLN::new(depth, Cursor::new(cfg.clone())));
        let el = t0.elapsed().as_millis();
        let _ = holder.join();
        rep.ev();
        rep.stratum(format!("recreate-while-previous-alive|hold={hold_ms}ms"));
        match r2 {
            Ok(Ok(mut r2)) => {
                let mut root = vec![];
                let _ = r2.get_root(&mut root);
                if dec_frs(&root, 1).map(|v| v[0]) != Some(m.root()) || r2.leaves_set() != m.mark {
                    rep.violation("recreate-while-previous-alive:state-lost-or-changed", json!({"hold_ms": hold_ms, "elapsed_ms": el as u64, "model_count": m.mark, "count": r2.leaves_set()}));
                    break;
                }
                rep.count("recreate_while_previous_alive_ok");
            }
            Ok(Err(e)) => {
                rep.violation("recreate-while-previous-alive:open-failed", json!({"hold_ms": hold_ms, "elapsed_ms": el as u64, "error": e.to_string().lines().next().unwrap_or("").to_string()}));
                break;
            }
            Err(p) => {
                rep.violation("recreate-while-previous-alive:open-panicked", json!({"panic": p.msg}));
                break;
            }
        }
        max_ms = max_ms.max(el);
    }
    rep.note("recreate_max_open_ms", json!(max_ms as u64));
    rep.note("recreate_open_retries", json!(hooks::OPEN_RETRIES.load(Ordering::SeqCst) - retries0));
    let _ = std::fs::remove_dir_all(&dir);
}

pub fn run(rep: &mut Rep, args: &[String]) {
    rep.rule = "(1) the transcript (roots after 24 batch updates incl. rayon-parallel range writes on a persistent tree, serialized and graph witnesses, proof values, proof generation + verification verdicts, verdicts on a fixed corpus of valid/tampered/truncated messages) of separate processes (explicit pool sizes 1,2,3,4,5,7,16 and children confined to 3 / 6 processors with the pool size left to the machine; batches of up to 7919 leaves whose length no small worker count divides, through set_leaves_from, atomic_operation and init_tree_with_leaves) must have the same SHA-256; (2) every read-only call kind (verify*, get_root/leaf/proof/subtree_root/empty indices/metadata, hash, poseidon_hash, seeded keygen, witness calculation, recover) issued concurrently by 2..64 threads on one shared instance, through &RLN and through *const RLN of the FFI, must return its sequential result; (2e) per call kind, 9 / 16 / 32 barrier-released threads all make the same call (the sequentially accepted query of that kind) at once, with a progress monitor: no completed call for 120 s while calls are outstanding = the calls wait for each other; (2b) a storm of cheap pure calls (Poseidon through three entry points, hash-to-field, seeded key derivation) from 2..16 threads walking over the same few related inputs must return the from-spec reference values; (2d) the bundled witness graph and a variant of it are evaluated by 8 threads at the same time and must give their sequential results; (2c) fresh instances receive their very first calls from 8 threads at once (no sequential warm-up) and must answer like a sequentially queried twin; fresh processes race the first use of the lazily initialised globals; (4) create-write-flush-drop-create cycles on one storage location. distinct_nontrivial = distinct (call kind x concurrently in-flight call kind) overlaps actually observed, pool sizes, recreate latency classes".into();
    rep.assumptions = vec!["schedules are sampled, not enumerated; a watchdog timeout of a whole step is inconclusive, not a violation; the only time-based verdict is the no-progress monitor of the same-kind bursts (no call out of a bounded set of millisecond calls completes for 120 s)".into()];
    let thorough = rep.thorough();
    let seed = rep.seed;
    let only = arg(args, "--only");
    let scale: usize = arg(args, "--scale").and_then(|s| s.parse().ok()).unwrap_or(100);
    let want = |leg: &str| only.as_deref().map(|o| o.split(',').any(|x| x == leg)).unwrap_or(true);
    if want("transcript") {
        transcripts(rep, seed, if thorough { 6 } else { 2 });
    }
    if want("shared") {
        if let Some(sh) = build_shared(rep, seed, if thorough { 6 } else { 3 }) {
            rep.note("read_only_queries", json!(sh.queries.len()));
            let per = (if thorough { 1500 } else { 150 }) * scale / 100;
            for (threads, ffi) in [(2usize, false), (8, false), (16, true), (32, false), (64, false), (16, false)] {
                hammer(rep, &sh, threads, per.max(8), seed, ffi, &format!("t{threads}{}", if ffi { "ffi" } else { "" }));
                rep.stratum(format!("shared|threads={threads}|ffi={ffi}"));
            }
            for threads in [16usize, 9, 32] {
                bursts(rep, &sh, threads, (if thorough { 24 } else { 6 }) * scale.max(25) / 100);
            }
            if want("cold") || only.is_none() {
                cold_instances(rep, &sh, if thorough { 60 } else { 8 } * scale.max(25) / 100, 8, seed);
            }
        }
    }
    if want("storm") {
        let per = (if thorough { 400_000 } else { 40_000 }) * scale / 100;
        for threads in [2usize, 4, 8, 16, 16] {
            storm(rep, seed.wrapping_add(threads as u64), threads, per.max(64));
        }
    }
    if want("graphs") {
        two_graphs(rep, seed, 8, (if thorough { 400 } else { 40 }) * scale.max(25) / 100);
    }
    if want("firstuse") {
        if let Ok(me) = std::env::var("VH_SELF").or_else(|_| std::env::current_exe().map(|p| p.to_string_lossy().to_string())) {
            let n = if thorough { 40 } else { 6 };
            for k in 0..n {
                let out = std::process::Command::new(&me).args(["c18-firstuse", &(seed + k as u64).to_string()]).output();
                rep.ev();
                rep.stratum(format!("firstuse|process{}", k % 8));
                match out {
                    Ok(o) => {
                        let s = String::from_utf8_lossy(&o.stdout);
                        if !o.status.success() {
                            rep.violation("firstuse:process-crashed", json!({"status": format!("{:?}", o.status), "stderr": String::from_utf8_lossy(&o.stderr).chars().take(400).collect::<String>()}));
                        } else if !s.contains("FIRSTUSE-OK") {
                            rep.violation("firstuse:results-differ-between-threads", json!({"stdout": s.chars().take(600).collect::<String>()}));
                        }
                    }
                    Err(e) => rep.inconclusive(format!("spawn: {e}")),
                }
            }
        }
    }
    #[cfg(any(feature = "pm", feature = "full"))]
    if want("recreate") {
        recreate_loop(rep, seed, (if thorough { 600 } else { 60 }) * scale / 100);
    }
}
