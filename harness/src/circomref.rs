//! Reference semantics of circom's operators over the BN254 scalar field, written from circom's
//! documentation ("Basic operators") and the behaviour of its reference field library
//! (shift in the reverse direction for counts above p/2, 254-bit mask, reduction mod p, zero for
//! division by zero). Operates on canonical representatives as `BigUint`.
#![allow(dead_code)]

use crate::common::p;
use num_bigint::BigUint;
use num_traits::{One, Zero};

#[derive(Clone, Copy, Debug, PartialEq, Eq, PartialOrd, Ord)]
pub enum Op {
    Mul,
    Div,
    Add,
    Sub,
    Pow,
    Idiv,
    Mod,
    Eq,
    Neq,
    Lt,
    Gt,
    Leq,
    Geq,
    Land,
    Lor,
    Shl,
    Shr,
    Bor,
    Band,
    Bxor,
}

pub const ALL_OPS: [Op; 20] = [
    Op::Mul,
    Op::Div,
    Op::Add,
    Op::Sub,
    Op::Pow,
    Op::Idiv,
    Op::Mod,
    Op::Eq,
    Op::Neq,
    Op::Lt,
    Op::Gt,
    Op::Leq,
    Op::Geq,
    Op::Land,
    Op::Lor,
    Op::Shl,
    Op::Shr,
    Op::Bor,
    Op::Band,
    Op::Bxor,
];

pub struct Ctx {
    pub p: BigUint,
    pub half: BigUint, // p/2 (integer division) = (p-1)/2
    pub mask: BigUint, // 2^254 - 1
}

impl Ctx {
    pub fn new() -> Self {
        let p = p();
        let half = &p >> 1;
        let mask = (BigUint::one() << 254) - BigUint::one();
        Ctx { p, half, mask }
    }

    fn b(&self, x: bool) -> BigUint {
        if x {
            BigUint::one()
        } else {
            BigUint::zero()
        }
    }

    /// signed comparison: val(z) = z - p if z > p/2 else z
    fn cmp_signed(&self, a: &BigUint, b: &BigUint) -> std::cmp::Ordering {
        let an = a > &self.half;
        let bn = b > &self.half;
        match (an, bn) {
            (false, false) | (true, true) => a.cmp(b), // same sign: order of representatives
            (true, false) => std::cmp::Ordering::Less,
            (false, true) => std::cmp::Ordering::Greater,
        }
    }

    fn shl(&self, a: &BigUint, k: &BigUint) -> BigUint {
        if k <= &self.half {
            if k >= &BigUint::from(254u32) {
                BigUint::zero()
            } else {
                let kk: u32 = k.try_into().unwrap();
                ((a << kk) & &self.mask) % &self.p
            }
        } else {
            // k > p/2: shift right by p - k
            let nk = &self.p - k;
            self.shr_small(a, &nk)
        }
    }

    fn shr_small(&self, a: &BigUint, k: &BigUint) -> BigUint {
        if k >= &BigUint::from(254u32) {
            BigUint::zero()
        } else {
            let kk: u32 = k.try_into().unwrap();
            a >> kk
        }
    }

    fn shr(&self, a: &BigUint, k: &BigUint) -> BigUint {
        if k <= &self.half {
            self.shr_small(a, k)
        } else {
            let nk = &self.p - k;
            // shift left by p - k (which is <= p/2)
            if nk >= BigUint::from(254u32) {
                BigUint::zero()
            } else {
                let kk: u32 = (&nk).try_into().unwrap();
                ((a << kk) & &self.mask) % &self.p
            }
        }
    }

    pub fn eval(&self, op: Op, a: &BigUint, b: &BigUint) -> BigUint {
        let p = &self.p;
        match op {
            Op::Mul => (a * b) % p,
            Op::Add => (a + b) % p,
            Op::Sub => ((a + p) - b) % p,
            Op::Div => {
                if b.is_zero() {
                    BigUint::zero()
                } else {
                    (a * b.modpow(&(p - BigUint::from(2u8)), p)) % p
                }
            }
            Op::Pow => a.modpow(b, p),
            Op::Idiv => {
                if b.is_zero() {
                    BigUint::zero()
                } else {
                    a / b
                }
            }
            Op::Mod => {
                if b.is_zero() {
                    BigUint::zero()
                } else {
                    a % b
                }
            }
            Op::Eq => self.b(a == b),
            Op::Neq => self.b(a != b),
            Op::Lt => self.b(self.cmp_signed(a, b).is_lt()),
            Op::Gt => self.b(self.cmp_signed(a, b).is_gt()),
            Op::Leq => self.b(self.cmp_signed(a, b).is_le()),
            Op::Geq => self.b(self.cmp_signed(a, b).is_ge()),
            Op::Land => self.b(!a.is_zero() && !b.is_zero()),
            Op::Lor => self.b(!a.is_zero() || !b.is_zero()),
            Op::Shl => self.shl(a, b),
            Op::Shr => self.shr(a, b),
            Op::Bor => ((a | b) & &self.mask) % p,
            Op::Band => ((a & b) & &self.mask) % p,
            Op::Bxor => ((a ^ b) & &self.mask) % p,
        }
    }

    pub fn neg(&self, a: &BigUint) -> BigUint {
        if a.is_zero() {
            BigUint::zero()
        } else {
            &self.p - a
        }
    }

    pub fn tern(&self, c: &BigUint, t: &BigUint, e: &BigUint) -> BigUint {
        if c.is_zero() {
            e.clone()
        } else {
            t.clone()
        }
    }
}
