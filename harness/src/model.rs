//! The ideal hash tree (DESIGN.md Appendix A): an array of 2^d leaves initialised to the default
//! leaf, level k-1 = pairwise hash of level k. Sparse representation with incremental path
//! recomputation, plus a naive recursive recomputation used to self-check the model.
#![allow(dead_code)]

use ark_bn254::Fr;
use std::collections::{BTreeMap, HashMap};

pub type HashFn = fn(&Fr, &Fr) -> Fr;

#[derive(Clone, Copy, PartialEq, Eq, Debug)]
pub enum Flag {
    Written,
    Removed,
}

#[derive(Clone)]
pub struct Model {
    pub depth: usize,
    pub h: HashFn,
    pub default_leaf: Fr,
    /// zeros[k] = value of an all-default subtree whose root is at level k (level depth = leaf)
    pub zeros: Vec<Fr>,
    pub leaves: BTreeMap<usize, Fr>,
    pub flags: BTreeMap<usize, Flag>,
    pub mark: usize,
    nodes: HashMap<(usize, usize), Fr>,
    pub metadata: Vec<u8>,
}

#[derive(Clone, Debug, PartialEq)]
pub enum MOut {
    Applied,
    Rejected,
}

impl Model {
    pub fn new(depth: usize, h: HashFn, default_leaf: Fr) -> Self {
        let mut zeros = vec![default_leaf; depth + 1];
        for k in (0..depth).rev() {
            zeros[k] = h(&zeros[k + 1], &zeros[k + 1]);
        }
        Model { depth, h, default_leaf, zeros, leaves: BTreeMap::new(), flags: BTreeMap::new(), mark: 0, nodes: HashMap::new(), metadata: vec![] }
    }
    pub fn cap(&self) -> usize {
        1usize << self.depth
    }
    pub fn node(&self, level: usize, idx: usize) -> Fr {
        if level == self.depth {
            return *self.leaves.get(&idx).unwrap_or(&self.default_leaf);
        }
        *self.nodes.get(&(level, idx)).unwrap_or(&self.zeros[level])
    }
    pub fn root(&self) -> Fr {
        self.node(0, 0)
    }
    pub fn get(&self, i: usize) -> Fr {
        self.node(self.depth, i)
    }
    fn put_leaf(&mut self, i: usize, v: Fr) {
        self.leaves.insert(i, v);
        let mut idx = i;
        for level in (0..self.depth).rev() {
            idx >>= 1;
            let l = self.node(level + 1, 2 * idx);
            let r = self.node(level + 1, 2 * idx + 1);
            self.nodes.insert((level, idx), (self.h)(&l, &r));
        }
    }
    pub fn set(&mut self, i: usize, v: Fr) -> MOut {
        if i >= self.cap() {
            return MOut::Rejected;
        }
        self.put_leaf(i, v);
        self.flags.insert(i, Flag::Written);
        self.mark = self.mark.max(i + 1);
        MOut::Applied
    }
    pub fn delete(&mut self, i: usize) -> MOut {
        if i >= self.cap() {
            return MOut::Rejected;
        }
        if i < self.mark {
            self.put_leaf(i, self.default_leaf);
            self.flags.insert(i, Flag::Removed);
        }
        // deleting a never-written position at or above the mark changes nothing
        MOut::Applied
    }
    pub fn append(&mut self, v: Fr) -> MOut {
        if self.mark >= self.cap() {
            return MOut::Rejected;
        }
        self.set(self.mark, v)
    }
    pub fn write_range(&mut self, start: usize, vs: &[Fr]) -> MOut {
        match start.checked_add(vs.len()) {
            Some(e) if e <= self.cap() => {}
            _ => return MOut::Rejected,
        }
        for (k, v) in vs.iter().enumerate() {
            self.set(start + k, *v);
        }
        MOut::Applied
    }
    pub fn reset(&mut self) {
        *self = Model::new(self.depth, self.h, self.default_leaf);
    }
    /// batch update: reset each removed position, then write the leaves at start..
    pub fn batch(&mut self, start: usize, vs: &[Fr], removals: &[usize]) -> MOut {
        if vs.is_empty() && removals.is_empty() {
            return MOut::Rejected;
        }
        match start.checked_add(vs.len()) {
            Some(e) if e <= self.cap() => {}
            _ => return MOut::Rejected,
        }
        if removals.iter().any(|r| *r >= self.cap()) {
            return MOut::Rejected;
        }
        for r in removals {
            self.delete(*r);
        }
        for (k, v) in vs.iter().enumerate() {
            self.set(start + k, *v);
        }
        MOut::Applied
    }
    pub fn empties(&self) -> Vec<usize> {
        (0..self.mark).filter(|i| self.flags.get(i) != Some(&Flag::Written)).collect()
    }
    /// subtree root as the backends define it: level n, leaf index i -> node i >> (d - n)
    pub fn subtree(&self, n: usize, i: usize) -> Option<Fr> {
        if n > self.depth || i >= self.cap() {
            return None;
        }
        Some(self.node(n, i >> (self.depth - n)))
    }
    /// siblings bottom-up and direction bits (bit k of i)
    pub fn proof(&self, i: usize) -> (Vec<Fr>, Vec<u8>) {
        let mut els = vec![];
        let mut bits = vec![];
        let mut idx = i;
        for level in (1..=self.depth).rev() {
            els.push(self.node(level, idx ^ 1));
            bits.push((idx & 1) as u8);
            idx >>= 1;
        }
        (els, bits)
    }
    pub fn fold(&self, leaf: &Fr, els: &[Fr], bits: &[u8]) -> Fr {
        let mut acc = *leaf;
        for (e, b) in els.iter().zip(bits.iter()) {
            acc = if *b == 0 { (self.h)(&acc, e) } else { (self.h)(e, &acc) };
        }
        acc
    }
    /// naive recomputation of the root from the leaves only (self-check of the incremental model)
    pub fn naive_root(&self) -> Fr {
        self.naive_node(0, 0)
    }
    fn naive_node(&self, level: usize, idx: usize) -> Fr {
        if level == self.depth {
            return self.get(idx);
        }
        let span = 1usize << (self.depth - level);
        let lo = idx * span;
        if self.leaves.range(lo..lo + span).all(|(_, v)| *v == self.default_leaf) {
            return self.zeros[level];
        }
        let l = self.naive_node(level + 1, 2 * idx);
        let r = self.naive_node(level + 1, 2 * idx + 1);
        (self.h)(&l, &r)
    }
    /// compact fingerprint of the abstract state (leaves + flags + mark)
    pub fn state_key(&self) -> String {
        use sha2::{Digest, Sha256};
        let mut h = Sha256::new();
        h.update((self.depth as u64).to_le_bytes());
        h.update((self.mark as u64).to_le_bytes());
        for (i, v) in self.leaves.iter() {
            if *v != self.default_leaf {
                h.update((*i as u64).to_le_bytes());
                h.update(crate::common::fr_le32(v));
            }
        }
        for (i, f) in self.flags.iter() {
            h.update((*i as u64).to_le_bytes());
            h.update([if *f == Flag::Written { 1u8 } else { 2u8 }]);
        }
        crate::common::hex(&h.finalize()[..12])
    }
}
