//! Shared helpers around the RLN protocol: independent computation of the published values,
//! witness construction, bit patterns.
#![allow(dead_code)]

use crate::codec::*;
use crate::common::*;
use crate::refhash::*;
use ark_bn254::Fr;
use rand::Rng;
use rln::protocol::RLNWitnessInput;

/// The RLN formulas, computed with the reference Poseidon only.
pub fn ref_values(w: &Witness) -> ProofValues {
    let a1 = poseidon_ref(&[w.secret, w.ext, w.msg_id]);
    let y = w.secret + w.x * a1;
    let nullifier = poseidon_ref(&[a1]);
    let mut node = poseidon_ref(&[poseidon_ref(&[w.secret]), w.limit]);
    for (el, bit) in w.path.iter().zip(w.bits.iter()) {
        node = if *bit == 0 { poseidon_ref(&[node, *el]) } else { poseidon_ref(&[*el, node]) };
    }
    ProofValues { root: node, ext: w.ext, x: w.x, y, nullifier }
}

pub fn rate_commitment_ref(secret: &Fr, limit: &Fr) -> Fr {
    poseidon_ref(&[poseidon_ref(&[*secret]), *limit])
}

/// zerokit's witness object from the harness' own encoding (fields of RLNWitnessInput are private).
pub fn to_zk_witness(w: &Witness) -> Result<RLNWitnessInput, String> {
    match catch(|| rln::protocol::deserialize_witness(&enc_witness(w))) {
        Ok(Ok((zw, _))) => Ok(zw),
        Ok(Err(e)) => Err(format!("err: {e}")),
        Err(p) => Err(format!("panic: {}", p.msg)),
    }
}

pub fn named_inputs(w: &Witness) -> Vec<(String, Vec<Fr>)> {
    vec![
        ("identitySecret".to_string(), vec![w.secret]),
        ("userMessageLimit".to_string(), vec![w.limit]),
        ("messageId".to_string(), vec![w.msg_id]),
        ("pathElements".to_string(), w.path.clone()),
        ("identityPathIndex".to_string(), w.bits.iter().map(|b| Fr::from(*b as u64)).collect()),
        ("x".to_string(), vec![w.x]),
        ("externalNullifier".to_string(), vec![w.ext]),
    ]
}

pub fn bit_patterns(depth: usize, rng: &mut impl rand::RngCore) -> Vec<(String, Vec<u8>)> {
    let mut out = vec![
        ("all0".to_string(), vec![0u8; depth]),
        ("all1".to_string(), vec![1u8; depth]),
        ("alt01".to_string(), (0..depth).map(|i| (i % 2) as u8).collect()),
        ("alt10".to_string(), (0..depth).map(|i| ((i + 1) % 2) as u8).collect()),
    ];
    for k in 0..depth {
        let mut v = vec![0u8; depth];
        v[k] = 1;
        out.push((format!("onehot{k}"), v.clone()));
        out.push((format!("cohot{k}"), v.iter().map(|b| 1 - b).collect()));
    }
    for i in 0..4 {
        out.push((format!("random{i}"), (0..depth).map(|_| rng.gen_range(0..2u8)).collect()));
    }
    out
}

pub const LIMITS: [u64; 7] = [1, 2, 3, 100, 1 << 15, (1 << 16) - 1, 1 << 16];

pub fn ids_for(limit: u64) -> Vec<u64> {
    let mut v = vec![0u64, limit - 1, limit / 2];
    for c in [1u64, (1 << 15) - 1, 1 << 15, (1 << 16) - 1, 255, 256] {
        if c < limit {
            v.push(c);
        }
    }
    v.sort();
    v.dedup();
    v
}

pub fn id_class(id: u64, limit: u64) -> &'static str {
    if id == 0 {
        "0"
    } else if id + 1 == limit {
        "limit-1"
    } else if id >= (1 << 15) {
        ">=2^15"
    } else if id == 1 {
        "1"
    } else {
        "mid"
    }
}
