//! Model-based monitor for the Merkle tree backends (C06, C07, C08, C15): systems under test
//! behind one interface, history generator, per-step comparison with the ideal tree.
#![allow(dead_code, unused_imports)]

use crate::codec;
use crate::common::*;
use crate::model::*;
use ark_bn254::Fr;
use rand::Rng;
use serde_json::{json, Value};
use std::collections::BTreeSet;
use zerokit_utils::merkle_tree::{
    FullMerkleBranch, FullMerkleProof, FullMerkleTree, Hasher, OptimalMerkleProof, OptimalMerkleTree, ZerokitMerkleProof,
    ZerokitMerkleTree,
};

// ---------------------------------------------------------------------------------------------
// hashers
// ---------------------------------------------------------------------------------------------

/// cheap non-commutative, non-linear hasher used to reach many more states than Poseidon allows
#[derive(Clone, Copy, PartialEq, Eq)]
pub struct ToyHash;
pub fn toy_h(a: &Fr, b: &Fr) -> Fr {
    let t = *a + *b + *b + Fr::from(1u64);
    let t2 = t * t;
    t2 * t2 * t + *a
}
impl Hasher for ToyHash {
    type Fr = Fr;
    fn default_leaf() -> Fr {
        Fr::from(0u64)
    }
    fn hash(i: &[Fr]) -> Fr {
        toy_h(&i[0], &i[1])
    }
}
pub fn poseidon_h(a: &Fr, b: &Fr) -> Fr {
    crate::refhash::poseidon_ref(&[*a, *b])
}

// ---------------------------------------------------------------------------------------------
// operations and outcomes
// ---------------------------------------------------------------------------------------------

#[derive(Clone, Debug)]
pub enum TOp {
    Set(usize, Fr),
    Delete(usize),
    Append(Fr),
    Range(usize, Vec<Fr>),
    Reset,
    Batch(usize, Vec<Fr>, Vec<usize>),
    Init(Vec<Fr>),
    ComputeRoot,
    Reopen,
}

impl TOp {
    pub fn kind(&self) -> &'static str {
        match self {
            TOp::Set(..) => "set",
            TOp::Delete(..) => "delete",
            TOp::Append(..) => "append",
            TOp::Range(_, v) if v.is_empty() => "range-empty",
            TOp::Range(..) => "range",
            TOp::Reset => "reset",
            TOp::Batch(_, l, r) => match (l.is_empty(), r.is_empty()) {
                (true, true) => "batch-empty",
                (false, true) => "batch-leaves-only",
                (true, false) => "batch-removals-only",
                (false, false) => "batch-both",
            },
            TOp::Init(..) => "init",
            TOp::ComputeRoot => "compute_root",
            TOp::Reopen => "reopen",
        }
    }
    pub fn is_batch(&self) -> bool {
        matches!(self, TOp::Batch(..) | TOp::Init(..))
    }
    pub fn show(&self) -> String {
        let f = |v: &Fr| {
            let s = fr_s(v);
            if s.len() > 8 {
                format!("{}..", &s[..8])
            } else {
                s
            }
        };
        match self {
            TOp::Set(i, v) => format!("set({i},{})", f(v)),
            TOp::Delete(i) => format!("delete({i})"),
            TOp::Append(v) => format!("append({})", f(v)),
            TOp::Range(s, v) => format!("range({s},[{}])", v.iter().map(f).collect::<Vec<_>>().join(",")),
            TOp::Reset => "reset".into(),
            TOp::Batch(s, l, r) => format!("batch({s},[{}],{:?})", l.iter().map(f).collect::<Vec<_>>().join(","), r),
            TOp::Init(l) => format!("init([{}])", l.iter().map(f).collect::<Vec<_>>().join(",")),
            TOp::ComputeRoot => "compute_root".into(),
            TOp::Reopen => "reopen".into(),
        }
    }
}

#[derive(Debug, Clone)]
pub enum Out {
    Ok,
    Err(String),
    Panic(Panicked),
    Unsupported,
}

fn wrap<E: std::fmt::Display>(r: Result<Result<(), E>, Panicked>) -> Out {
    match r {
        Ok(Ok(())) => Out::Ok,
        Ok(Err(e)) => Out::Err(e.to_string().lines().next().unwrap_or("").to_string()),
        Err(p) => Out::Panic(p),
    }
}

#[derive(Debug, Clone)]
pub struct ProofObs {
    pub elements: Vec<Fr>,
    pub bits: Vec<u8>,
    pub leaf_index: Option<usize>,
    pub length: Option<usize>,
}

pub trait Sut {
    fn name(&self) -> String;
    fn depth(&self) -> usize;
    fn apply(&mut self, op: &TOp) -> Out;
    fn root(&mut self) -> Result<Fr, Panicked>;
    fn leaves_set(&mut self) -> Result<usize, Panicked>;
    fn get(&mut self, i: usize) -> Result<Option<Fr>, Panicked>;
    fn subtree(&mut self, n: usize, i: usize) -> Result<Option<Fr>, Panicked>;
    fn empties(&mut self) -> Result<Vec<usize>, Panicked>;
    fn proof(&mut self, i: usize) -> Result<Option<ProofObs>, Panicked>;
    /// root recomputed by the proof object of position i from `leaf` (None if not available)
    fn proof_root_from(&mut self, i: usize, leaf: &Fr) -> Option<Fr>;
    /// the tree's own verify on a proof built from parts: Some(true) accepted, Some(false) not accepted
    fn verify_parts(&mut self, leaf: &Fr, parts: &[(Fr, u8)]) -> Option<bool>;
    /// the tree's own verify on its own proof for position i
    fn verify_own(&mut self, i: usize, leaf: &Fr) -> Option<bool>;
}

// ---------------------------------------------------------------------------------------------
// trait-level SUT
// ---------------------------------------------------------------------------------------------

pub trait ProofKit: ZerokitMerkleTree {
    fn from_parts(parts: Vec<(Fr, u8)>) -> Self::Proof;
}
impl<H: Hasher<Fr = Fr>> ProofKit for FullMerkleTree<H> {
    fn from_parts(parts: Vec<(Fr, u8)>) -> Self::Proof {
        FullMerkleProof(parts.into_iter().map(|(v, b)| if b == 0 { FullMerkleBranch::Left(v) } else { FullMerkleBranch::Right(v) }).collect())
    }
}
impl<H: Hasher<Fr = Fr>> ProofKit for OptimalMerkleTree<H> {
    fn from_parts(parts: Vec<(Fr, u8)>) -> Self::Proof {
        OptimalMerkleProof(parts)
    }
}
#[cfg(any(feature = "pm", feature = "full"))]
impl ProofKit for rln::pm_tree_adapter::PmTree {
    fn from_parts(parts: Vec<(Fr, u8)>) -> Self::Proof {
        rln::pm_tree_adapter::PmTreeProof::verif_from_parts(parts)
    }
}

pub struct TraitSut<T: ProofKit> {
    pub tree: T,
    pub depth: usize,
    pub label: String,
    pub mk: Box<dyn Fn(usize) -> Result<T, String>>,
    /// for persistent trees: flushes, drops the handle and reopens at the same location;
    /// receives the old tree by value
    pub reopen: Option<Box<dyn Fn(T, usize) -> Result<T, String>>>,
    /// a throw-away tree used as placeholder while the real one is being reopened
    pub placeholder: Option<Box<dyn Fn() -> T>>,
}

impl<T: ProofKit> TraitSut<T>
where
    T::Hasher: Hasher<Fr = Fr>,
    <T::Proof as ZerokitMerkleProof>::Hasher: Hasher<Fr = Fr>,
    T::Proof: ZerokitMerkleProof<Index = u8>,
{
    pub fn new(label: &str, depth: usize, mk: Box<dyn Fn(usize) -> Result<T, String>>) -> Result<Self, String> {
        let tree = mk(depth)?;
        Ok(TraitSut { tree, depth, label: label.into(), mk, reopen: None, placeholder: None })
    }
}

impl<T: ProofKit> Sut for TraitSut<T>
where
    T::Hasher: Hasher<Fr = Fr>,
    <T::Proof as ZerokitMerkleProof>::Hasher: Hasher<Fr = Fr>,
    T::Proof: ZerokitMerkleProof<Index = u8>,
{
    fn name(&self) -> String {
        self.label.clone()
    }
    fn depth(&self) -> usize {
        self.depth
    }
    fn apply(&mut self, op: &TOp) -> Out {
        let t = &mut self.tree;
        match op {
            TOp::Set(i, v) => wrap(catch(|| t.set(*i, *v))),
            TOp::Delete(i) => wrap(catch(|| t.delete(*i))),
            TOp::Append(v) => wrap(catch(|| t.update_next(*v))),
            TOp::Range(s, vs) => wrap(catch(|| t.set_range(*s, vs.clone().into_iter()))),
            TOp::Batch(s, vs, rm) => wrap(catch(|| t.override_range(*s, vs.clone().into_iter(), rm.clone().into_iter()))),
            TOp::Init(vs) => match catch(|| (self.mk)(self.depth)) {
                Ok(Ok(nt)) => {
                    self.tree = nt;
                    let t = &mut self.tree;
                    wrap(catch(|| t.override_range(0, vs.clone().into_iter(), Vec::<usize>::new().into_iter())))
                }
                Ok(Err(e)) => Out::Err(e),
                Err(p) => Out::Panic(p),
            },
            TOp::Reset => match catch(|| (self.mk)(self.depth)) {
                Ok(Ok(nt)) => {
                    self.tree = nt;
                    Out::Ok
                }
                Ok(Err(e)) => Out::Err(e),
                Err(p) => Out::Panic(p),
            },
            TOp::ComputeRoot => wrap(catch(|| t.compute_root().map(|_| ()))),
            TOp::Reopen => match (&self.reopen, &self.placeholder) {
                (Some(f), Some(ph)) => {
                    let old = std::mem::replace(&mut self.tree, ph());
                    match catch(|| f(old, self.depth)) {
                        Ok(Ok(nt)) => {
                            self.tree = nt;
                            Out::Ok
                        }
                        Ok(Err(e)) => Out::Err(e),
                        Err(p) => Out::Panic(p),
                    }
                }
                _ => Out::Unsupported,
            },
        }
    }
    fn root(&mut self) -> Result<Fr, Panicked> {
        catch(|| self.tree.root())
    }
    fn leaves_set(&mut self) -> Result<usize, Panicked> {
        catch(|| self.tree.leaves_set())
    }
    fn get(&mut self, i: usize) -> Result<Option<Fr>, Panicked> {
        catch(|| self.tree.get(i).ok())
    }
    fn subtree(&mut self, n: usize, i: usize) -> Result<Option<Fr>, Panicked> {
        catch(|| self.tree.get_subtree_root(n, i).ok())
    }
    fn empties(&mut self) -> Result<Vec<usize>, Panicked> {
        catch(|| self.tree.get_empty_leaves_indices())
    }
    fn proof(&mut self, i: usize) -> Result<Option<ProofObs>, Panicked> {
        catch(|| {
            self.tree.proof(i).ok().map(|p| ProofObs {
                elements: p.get_path_elements(),
                bits: p.get_path_index(),
                leaf_index: Some(p.leaf_index()),
                length: Some(p.length()),
            })
        })
    }
    fn proof_root_from(&mut self, i: usize, leaf: &Fr) -> Option<Fr> {
        catch(|| self.tree.proof(i).ok().map(|p| p.compute_root_from(leaf))).ok().flatten()
    }
    fn verify_parts(&mut self, leaf: &Fr, parts: &[(Fr, u8)]) -> Option<bool> {
        let pr = T::from_parts(parts.to_vec());
        match catch(|| self.tree.verify(leaf, &pr)) {
            Ok(Ok(b)) => Some(b),
            Ok(Err(_)) => Some(false),
            Err(_) => Some(false),
        }
    }
    fn verify_own(&mut self, i: usize, leaf: &Fr) -> Option<bool> {
        match catch(|| self.tree.proof(i).and_then(|p| self.tree.verify(leaf, &p))) {
            Ok(Ok(b)) => Some(b),
            Ok(Err(_)) => Some(false),
            Err(_) => Some(false),
        }
    }
}

// ---------------------------------------------------------------------------------------------
// RLN-level SUT (whatever backend the build selected)
// ---------------------------------------------------------------------------------------------

#[cfg(not(feature = "stateless"))]
pub struct RlnSut {
    pub rln: rln::public::RLN,
    pub depth: usize,
    pub config: String,
    pub label: String,
    /// batch-like calls made so far (every third one carries stale bytes after the declared leaf vector)
    pub batch_calls: usize,
}

/// A leaf buffer as a caller with an over-allocated or re-used buffer would hand it over: the declared vector followed
/// by stale bytes (whole elements, a fragment, or both). The declared count says how many leaves the request has.
#[cfg(not(feature = "stateless"))]
fn with_slack(mut b: Vec<u8>, k: usize) -> Vec<u8> {
    match k % 3 {
        0 => b.extend([0x01u8; 32]),
        1 => {
            b.extend([0x02u8; 96]);
            b.extend([0x03u8; 5]);
        }
        _ => b.extend([0x04u8; 7]),
    }
    b
}

pub static SLACK_CALLS: std::sync::atomic::AtomicU64 = std::sync::atomic::AtomicU64::new(0);
pub static SLACK_REFUSED: std::sync::atomic::AtomicU64 = std::sync::atomic::AtomicU64::new(0);

#[cfg(not(feature = "stateless"))]
pub fn backend_name() -> &'static str {
    if cfg!(feature = "full") {
        "full"
    } else if cfg!(feature = "pm") {
        "pm"
    } else {
        "optimal"
    }
}

#[cfg(not(feature = "stateless"))]
impl RlnSut {
    pub fn new(depth: usize, config: &str) -> Result<Self, String> {
        match catch(|| rln::public::RLN::new(depth, std::io::Cursor::new(config.to_string()))) {
            Ok(Ok(rln)) => Ok(RlnSut { rln, depth, config: config.into(), label: format!("rln-{}", backend_name()), batch_calls: 0 }),
            Ok(Err(e)) => Err(format!("RLN::new: {e}")),
            Err(p) => Err(format!("RLN::new panicked: {}", p.msg)),
        }
    }
}

#[cfg(not(feature = "stateless"))]
impl Sut for RlnSut {
    fn name(&self) -> String {
        self.label.clone()
    }
    fn depth(&self) -> usize {
        self.depth
    }
    fn apply(&mut self, op: &TOp) -> Out {
        use std::io::Cursor;
        let r = &mut self.rln;
        match op {
            TOp::Set(i, v) => wrap(catch(|| r.set_leaf(*i, Cursor::new(codec::enc_fr(v))))),
            TOp::Delete(i) => wrap(catch(|| r.delete_leaf(*i))),
            TOp::Append(v) => wrap(catch(|| r.set_next_leaf(Cursor::new(codec::enc_fr(v))))),
            TOp::Range(..) | TOp::Batch(..) | TOp::Init(..) => {
                if let TOp::Batch(_, _, rm) = op {
                    if rm.iter().any(|x| *x > 255) {
                        return Out::Unsupported;
                    }
                }
                self.batch_calls += 1;
                let slack = self.batch_calls % 3 == 2;
                let k = self.batch_calls / 3;
                let mut call = |slack: bool| -> Out {
                    let lv = |vs: &Vec<Fr>| if slack { with_slack(codec::enc_vec_fr(vs), k) } else { codec::enc_vec_fr(vs) };
                    match op {
                        TOp::Range(s, vs) => wrap(catch(|| r.set_leaves_from(*s, Cursor::new(lv(vs))))),
                        TOp::Batch(s, vs, rm) => {
                            let idx: Vec<u8> = rm.iter().map(|x| *x as u8).collect();
                            wrap(catch(|| r.atomic_operation(*s, Cursor::new(lv(vs)), Cursor::new(codec::enc_vec_u8(&idx)))))
                        }
                        TOp::Init(vs) => wrap(catch(|| r.init_tree_with_leaves(Cursor::new(lv(vs))))),
                        _ => unreachable!(),
                    }
                };
                if !slack {
                    return call(false);
                }
                // the request is the declared vector: it is carried out with exactly the declared leaves, or the
                // buffer is refused as malformed - then nothing may have changed and the plain request follows
                SLACK_CALLS.fetch_add(1, std::sync::atomic::Ordering::Relaxed);
                match call(true) {
                    Out::Err(_) => {
                        SLACK_REFUSED.fetch_add(1, std::sync::atomic::Ordering::Relaxed);
                        call(false)
                    }
                    o => o,
                }
            }
            TOp::Reset => wrap(catch(|| r.set_tree(self.depth))),
            TOp::ComputeRoot => Out::Unsupported,
            TOp::Reopen => Out::Unsupported,
        }
    }
    fn root(&mut self) -> Result<Fr, Panicked> {
        catch(|| {
            let mut o = vec![];
            self.rln.get_root(&mut o).unwrap();
            codec::dec_frs(&o, 1).expect("get_root: 32 canonical bytes")[0]
        })
    }
    fn leaves_set(&mut self) -> Result<usize, Panicked> {
        catch(|| self.rln.leaves_set())
    }
    fn get(&mut self, i: usize) -> Result<Option<Fr>, Panicked> {
        catch(|| {
            let mut o = vec![];
            match self.rln.get_leaf(i, &mut o) {
                Ok(()) => Some(codec::dec_frs(&o, 1).expect("get_leaf: 32 canonical bytes")[0]),
                Err(_) => None,
            }
        })
    }
    fn subtree(&mut self, n: usize, i: usize) -> Result<Option<Fr>, Panicked> {
        catch(|| {
            let mut o = vec![];
            match self.rln.get_subtree_root(n, i, &mut o) {
                Ok(()) => Some(codec::dec_frs(&o, 1).expect("get_subtree_root: 32 canonical bytes")[0]),
                Err(_) => None,
            }
        })
    }
    fn empties(&mut self) -> Result<Vec<usize>, Panicked> {
        catch(|| {
            let mut o = vec![];
            self.rln.get_empty_leaves_indices(&mut o).unwrap();
            codec::dec_vec_usize(&o).expect("get_empty_leaves_indices: u64 count + u64 each")
        })
    }
    fn proof(&mut self, i: usize) -> Result<Option<ProofObs>, Panicked> {
        if i >= (1usize << self.depth) {
            return Ok(None);
        }
        catch(|| {
            let mut o = vec![];
            match self.rln.get_proof(i, &mut o) {
                Ok(()) => {
                    let (els, bits) = codec::dec_merkle_proof(&o).expect("get_proof layout");
                    Some(ProofObs { elements: els, bits, leaf_index: None, length: None })
                }
                Err(_) => None,
            }
        })
    }
    fn proof_root_from(&mut self, _i: usize, _leaf: &Fr) -> Option<Fr> {
        None
    }
    fn verify_parts(&mut self, _leaf: &Fr, _parts: &[(Fr, u8)]) -> Option<bool> {
        None
    }
    fn verify_own(&mut self, _i: usize, _leaf: &Fr) -> Option<bool> {
        None
    }
}

// ---------------------------------------------------------------------------------------------
// history generation
// ---------------------------------------------------------------------------------------------

#[derive(Clone, Copy, PartialEq)]
pub enum Alphabet {
    /// set / delete / append / range / reset / compute_root (C06)
    Plain,
    /// plain + batch + init, batch-heavy (C08)
    Batch,
    /// everything incl. reopen (C15, C07)
    All,
}

pub fn gen_leaf(rng: &mut impl rand::RngCore) -> Fr {
    match rng.gen_range(0..12) {
        0 => Fr::from(0u64), // explicit write of the default value
        1 => -Fr::from(1u64),
        2 => Fr::from(rng.gen_range(1..5u64)),
        _ => rand_fr(rng),
    }
}

pub fn gen_pos(rng: &mut impl rand::RngCore, cap: usize, mark: usize, wide: bool, allow_beyond: bool) -> usize {
    let r = rng.gen_range(0..100);
    if allow_beyond && r < 6 {
        return match rng.gen_range(0..8) {
            0 => cap,
            1 => cap + 1,
            2 => cap.saturating_mul(2),
            3 => cap + rng.gen_range(0..8),
            4 => usize::MAX,
            5 => usize::MAX - rng.gen_range(0..cap.min(64)),
            6 => usize::MAX - cap + 1,
            _ => cap + (1 << 20),
        };
    }
    if r < 30 {
        // around the high-water mark
        let c = [mark.saturating_sub(1), mark, mark + 1, mark + 2];
        return c[rng.gen_range(0..4)].min(cap - 1);
    }
    if r < 55 || !wide {
        let c = [0, 1, 2, 3, cap / 2 - (cap > 1) as usize, cap / 2, cap.saturating_sub(2), cap - 1, cap / 4, 3 * cap / 4];
        return c[rng.gen_range(0..c.len())].min(cap - 1);
    }
    rng.gen_range(0..cap)
}

pub fn gen_history(rng: &mut impl rand::RngCore, depth: usize, len: usize, alpha: Alphabet, persistent: bool, max_removal: usize, bulk_limit: usize) -> Vec<TOp> {
    gen_history_ex(rng, depth, len, alpha, persistent, max_removal, bulk_limit, false)
}

/// `pm_shapes`: for the sled-backed backend most leaves+removals batches use the one shape that backend implements
/// (removals inside the written range, smallest = start); the other shapes are a known finding and end a history at
/// once, which would otherwise starve everything that comes after them (reopen, later batches) of coverage
pub fn gen_history_ex(rng: &mut impl rand::RngCore, depth: usize, len: usize, alpha: Alphabet, persistent: bool, max_removal: usize, bulk_limit: usize, pm_shapes: bool) -> Vec<TOp> {
    let cap = 1usize << depth;
    let wide = rng.gen_bool(0.5);
    let mut ops = vec![];
    let mut mark = 0usize; // approximate, only used to aim positions
    for _ in 0..len {
        let r = rng.gen_range(0..100);
        let op = match alpha {
            Alphabet::Plain => match r {
                0..=29 => TOp::Set(gen_pos(rng, cap, mark, wide, true), gen_leaf(rng)),
                30..=44 => TOp::Delete(gen_pos(rng, cap, mark, wide, true)),
                45..=59 => TOp::Append(gen_leaf(rng)),
                60..=89 => gen_range(rng, cap, mark, wide, bulk_limit),
                90..=92 => TOp::Reset,
                // the persistent backend must keep following the ideal tree after being closed and reopened
                93..=95 if persistent => TOp::Reopen,
                93 => TOp::Reset,
                _ => TOp::ComputeRoot,
            },
            Alphabet::Batch => match r {
                0..=14 => TOp::Set(gen_pos(rng, cap, mark, wide, false), gen_leaf(rng)),
                15..=19 => TOp::Delete(gen_pos(rng, cap, mark, wide, false)),
                20..=27 => TOp::Append(gen_leaf(rng)),
                28..=34 => gen_range(rng, cap, mark, wide, bulk_limit),
                35..=89 => gen_batch(rng, cap, mark, wide, max_removal, bulk_limit, pm_shapes),
                90..=94 => {
                    // batch initialisation: usually a few leaves, sometimes more than a thousand (also one more than fits)
                    let n = if cap >= 1024 && cap <= 4096 && rng.gen_range(0..10) == 0 { [1024usize, 1025, cap, cap + 1][rng.gen_range(0..4)] } else { rng.gen_range(0..6usize).min(cap) };
                    TOp::Init((0..n).map(|_| gen_leaf(rng)).collect())
                }
                // batch updates must also be right on a tree that was closed and reopened in between
                95..=97 if persistent => TOp::Reopen,
                _ => TOp::Reset,
            },
            Alphabet::All => match r {
                0..=19 => TOp::Set(gen_pos(rng, cap, mark, wide, true), gen_leaf(rng)),
                20..=34 => TOp::Delete(gen_pos(rng, cap, mark, wide, true)),
                35..=49 => TOp::Append(gen_leaf(rng)),
                50..=64 => gen_range(rng, cap, mark, wide, bulk_limit),
                65..=84 => gen_batch(rng, cap, mark, wide, max_removal, bulk_limit, pm_shapes),
                85..=87 => TOp::Init((0..rng.gen_range(0..6usize).min(cap)).map(|_| gen_leaf(rng)).collect()),
                88..=90 => TOp::Reset,
                91..=93 => TOp::ComputeRoot,
                _ => {
                    if persistent {
                        TOp::Reopen
                    } else {
                        TOp::Append(gen_leaf(rng))
                    }
                }
            },
        };
        match &op {
            TOp::Set(i, _) if *i < cap => mark = mark.max(i + 1),
            TOp::Append(_) => mark = (mark + 1).min(cap),
            TOp::Range(s, v) if s + v.len() <= cap && !v.is_empty() => mark = mark.max(s + v.len()),
            TOp::Batch(s, v, _) if s + v.len() <= cap && !v.is_empty() => mark = mark.max(s + v.len()),
            TOp::Reset => mark = 0,
            TOp::Init(v) => mark = v.len(),
            _ => {}
        }
        ops.push(op);
    }
    ops
}

/// Bulk writes far to the right are very slow in the persistent backend (pmtree visits every leaf
/// left of the range end in the right subtrees); keep most of them below `bulk_limit`.
fn bulk_pos(rng: &mut impl rand::RngCore, p: usize, bulk_limit: usize) -> usize {
    if p > bulk_limit && rng.gen_range(0..100) >= 2 {
        p % bulk_limit
    } else {
        p
    }
}

/// a batch larger than typical internal chunk sizes (1024, 2048), placed so that it fits, ends exactly at capacity,
/// or has a first part that fits and a tail that does not
fn big_batch(rng: &mut impl rand::RngCore, cap: usize, per_mille: u32) -> Option<(usize, usize)> {
    // (only on trees of 2^10..2^12 leaves: the model and the sled backend need O(n * depth) hashes per batch)
    if cap < 1024 || cap > 4096 || rng.gen_range(0..1000) >= per_mille {
        return None;
    }
    let n = [1024usize, 1025, 1100, 2049, 3000][rng.gen_range(0..5)];
    let start = match rng.gen_range(0..4) {
        0 => cap.saturating_sub(n),                                  // ends exactly at capacity (if it fits at all)
        1 => cap.saturating_sub(n) + rng.gen_range(1..40),           // tail beyond capacity, first chunk(s) fit
        2 => cap.saturating_sub(1024) - rng.gen_range(0..cap.saturating_sub(1024).min(20) + 1), // first 1024 fit exactly
        _ => 0,
    };
    Some((start, n))
}

fn gen_range(rng: &mut impl rand::RngCore, cap: usize, mark: usize, wide: bool, bulk_limit: usize) -> TOp {
    if let Some((start, n)) = big_batch(rng, cap, 60) {
        return TOp::Range(start, (0..n).map(|_| gen_leaf(rng)).collect());
    }
    let n = [0usize, 1, 2, 3, 4, 5, 8, 17][rng.gen_range(0..8)];
    let start = match rng.gen_range(0..10) {
        0 => cap.saturating_sub(n),          // ends exactly at capacity
        1 => cap.saturating_sub(n) + 1,      // one too far
        2 => (cap / 2).saturating_sub(n / 2), // crossing the middle
        3 => cap,
        4 => 0,
        5 if rng.gen_range(0..4) == 0 => usize::MAX - rng.gen_range(0..(n + 2)),
        _ => gen_pos(rng, cap, mark, wide, false),
    };
    let start = if start > cap * 2 { start } else { bulk_pos(rng, start, bulk_limit) };
    TOp::Range(start, (0..n).map(|_| gen_leaf(rng)).collect())
}

fn gen_batch(rng: &mut impl rand::RngCore, cap: usize, mark: usize, wide: bool, max_removal: usize, bulk_limit: usize, pm_shapes: bool) -> TOp {
    if let Some((start, n)) = big_batch(rng, cap, 12) {
        // leaves-only or with a removal at the start of the range (the shape every backend implements)
        let rm = if rng.gen_bool(0.5) && start <= max_removal { vec![start] } else { vec![] };
        return TOp::Batch(start, (0..n).map(|_| gen_leaf(rng)).collect(), rm);
    }
    let n = [0usize, 0, 1, 1, 2, 3, 5, 17][rng.gen_range(0..8)];
    let start = match rng.gen_range(0..12) {
        0 => cap.saturating_sub(n),
        1 => cap.saturating_sub(n) + 1,
        2 => cap,
        3 => 0,
        4 => mark.saturating_sub(1),
        5 => mark,
        6 => (mark + 1).min(cap - 1),
        _ => gen_pos(rng, cap, mark, wide, false),
    };
    let start = bulk_pos(rng, start, bulk_limit);
    // with no leaves to write the start position means nothing: the statement does not say whether a
    // start beyond capacity makes a removal-only request invalid, so such requests are not generated
    let start = if n == 0 { start.min(cap) } else { start };
    let lim = cap.min(max_removal.saturating_add(1)).min(bulk_limit.max(2));
    let kind = rng.gen_range(0..10);
    let mut rm: Vec<usize> = match kind {
        0 | 1 => vec![],
        2 => vec![gen_pos(rng, lim, mark.min(lim), wide, false)],
        3 => {
            // contiguous before the range
            let a = start.saturating_sub(rng.gen_range(1..4));
            (a..start).collect()
        }
        4 => (start..(start + rng.gen_range(1..4)).min(cap)).collect(), // inside
        5 => {
            // after the range
            let a = start + n;
            (a..(a + rng.gen_range(1..4))).collect()
        }
        6 => {
            // straddling, non contiguous, unsorted, duplicated
            let mut v: Vec<usize> = (0..rng.gen_range(2..6)).map(|_| (start + n / 2 + 3).saturating_sub(rng.gen_range(0..8))).collect();
            v.push(v[0]);
            v
        }
        7 => vec![mark + rng.gen_range(0..3)], // at/above the high-water mark
        8 => vec![cap + rng.gen_range(0..3)],  // beyond capacity
        _ => (0..rng.gen_range(1..5)).map(|_| gen_pos(rng, lim, mark.min(lim), wide, false)).collect(),
    };
    if pm_shapes && n > 0 && !rm.is_empty() && rng.gen_range(0..100) < 85 {
        // the shape PmTree implements: removals inside [start, start+n) with the smallest equal to start
        let k = rng.gen_range(1..=n.min(3));
        rm = (0..k).map(|j| start + j).collect();
    }
    if kind != 8 {
        rm.retain(|x| *x <= max_removal);
    } else if max_removal < cap {
        rm.clear();
        rm.push(max_removal); // largest expressible index (e.g. 255 through the u8 interface)
    }
    TOp::Batch(start, (0..n).map(|_| gen_leaf(rng)).collect(), rm)
}

// ---------------------------------------------------------------------------------------------
// the monitor
// ---------------------------------------------------------------------------------------------

#[derive(Clone, Copy, PartialEq, Debug)]
pub enum Focus {
    State,   // C06
    Batch,   // C08
    Empties, // C15
    Proofs,  // C07
}

pub struct MonCfg {
    pub focus: Focus,
    pub h: HashFn,
    pub full_obs_every: usize,
}

fn apply_model(m: &mut Model, op: &TOp) -> MOut {
    match op {
        TOp::Set(i, v) => m.set(*i, *v),
        TOp::Delete(i) => m.delete(*i),
        TOp::Append(v) => m.append(*v),
        TOp::Range(s, vs) => m.write_range(*s, vs),
        TOp::Reset => {
            m.reset();
            MOut::Applied
        }
        TOp::Batch(s, vs, rm) => m.batch(*s, vs, rm),
        TOp::Init(vs) => {
            // batch initialisation = fresh tree followed by that write; if the write is rejected the
            // statement leaves the result open between "unchanged" and "fresh": we model "fresh" because
            // the reset has already been acknowledged by the API's own two-step definition
            m.reset();
            m.write_range(0, vs); // refused by the model itself when it does not fit: the tree stays fresh
            MOut::Applied
        }
        TOp::ComputeRoot | TOp::Reopen => MOut::Applied,
    }
}

fn watch_positions(m: &Model, touched: &BTreeSet<usize>, rng: &mut impl rand::RngCore) -> Vec<usize> {
    let cap = m.cap();
    if m.depth <= 5 {
        return (0..cap).collect();
    }
    let mut s: BTreeSet<usize> = touched.iter().cloned().filter(|x| *x < cap).collect();
    let inside: Vec<usize> = s.iter().cloned().collect();
    for x in inside.iter() {
        for d in [1usize, 2] {
            if *x + d < cap {
                s.insert(*x + d);
            }
            if *x >= d {
                s.insert(*x - d);
            }
        }
        s.insert((*x ^ 1).min(cap - 1));
    }
    for x in [0, 1, cap / 2 - 1, cap / 2, cap - 2, cap - 1, m.mark.min(cap - 1), m.mark.saturating_sub(1)] {
        s.insert(x);
    }
    for _ in 0..6 {
        s.insert(rng.gen_range(0..cap));
    }
    s.into_iter().take(96).collect()
}

/// backend family used in violation signatures (the SUT's full name goes into the details)
pub fn family(name: &str) -> &'static str {
    if name.contains("pm") {
        "pm"
    } else if name.contains("full") {
        "full"
    } else if name.contains("optimal") {
        "optimal"
    } else {
        "other"
    }
}

pub struct HistResult {
    pub steps: usize,
    pub diverged: bool,
}

/// Runs one history on a SUT against the model; reports violations according to the focus.
pub fn run_history(rep: &mut Rep, cfg: &MonCfg, sut: &mut dyn Sut, ops: &[TOp], rng: &mut impl rand::RngCore, hist_id: &str) -> HistResult {
    let depth = sut.depth();
    let mut m = Model::new(depth, cfg.h, Fr::from(0u64));
    let name = sut.name();
    let mut touched: BTreeSet<usize> = BTreeSet::new();
    let mut nontrivial = false;
    let show_hist = |k: usize| -> Value { json!(ops[..=k.min(ops.len() - 1)].iter().map(|o| o.show()).collect::<Vec<_>>()) };
    let mut steps = 0;
    for (k, op) in ops.iter().enumerate() {
        steps += 1;
        let before = m.clone();
        let mout = apply_model(&mut m, op);
        if mout == MOut::Rejected {
            m = before.clone();
        }
        let out = sut.apply(op);
        if let Out::Unsupported = out {
            m = before;
            continue;
        }
        match op {
            TOp::Set(i, _) | TOp::Delete(i) => {
                touched.insert(*i);
            }
            TOp::Append(_) => {
                touched.insert(before.mark);
            }
            TOp::Range(s, v) | TOp::Batch(s, v, _) => {
                for j in 0..v.len().min(40) {
                    touched.insert(s.saturating_add(j));
                }
                touched.insert(s.saturating_add(v.len()));
            }
            TOp::Reset | TOp::Init(_) => touched.clear(),
            _ => {}
        }
        if let TOp::Batch(_, _, rm) = op {
            for r in rm {
                touched.insert(*r);
            }
        }
        if matches!(op, TOp::Range(..) | TOp::Delete(..) | TOp::Batch(..)) {
            nontrivial = true;
        }
        let kind = op.kind();
        let rejected = mout == MOut::Rejected;
        let fam = family(&name);
        let mut bkind = kind.to_string();
        let mut okind = if rejected { format!("{kind}(rejected-by-model)") } else { kind.to_string() };
        if let TOp::Batch(s, v, rm) = op {
            if !v.is_empty() && !rm.is_empty() {
                // shape of the request relative to the written range [start, end)
                let (mn, mx, end) = (*rm.iter().min().unwrap(), *rm.iter().max().unwrap(), s.saturating_add(v.len()));
                let a = if mn < *s { "min<start" } else if mn == *s { "min==start" } else { "min>start" };
                let b = if mx < end { "max<end" } else { "max>=end" };
                okind = format!("{okind}[{a},{b}]");
                bkind = format!("{kind}[{a},{b}]");
            }
        }
        rep.ev();
        // a panic of a batch request is a C08 violation by itself
        if let Out::Panic(p) = &out {
            rep.count("sut_panics");
            if cfg.focus == Focus::Batch && op.is_batch() {
                rep.violation(format!("{fam}:{bkind}:panic"), json!({"sut": name, "rejected_by_model": rejected, "history": show_hist(k), "depth": depth, "panic": p.msg, "at": p.loc, "hist": hist_id}));
                return HistResult { steps, diverged: true };
            }
        }
        // ---- state comparison (root + mark every step)
        let state_focus = cfg.focus == Focus::State || (cfg.focus == Focus::Batch && op.is_batch());
        let mut diverged: Option<String> = None;
        match (sut.root(), sut.leaves_set()) {
            (Ok(r), Ok(ls)) => {
                if r != m.root() {
                    diverged = Some("root".into());
                } else if ls != m.mark {
                    diverged = Some("leaves_set".into());
                }
                if let Some(w) = &diverged {
                    if state_focus {
                        let what = w.as_str();
                        let sig = if op.is_batch() { format!("{fam}:{bkind}:state-differs") } else { format!("{name}:{okind}:{what}-differs") };
                        rep.violation(sig, json!({"sut": name, "what": what, "rejected_by_model": rejected, "history": show_hist(k), "depth": depth, "model_root": fr_s(&m.root()), "sut_root": fr_s(&r), "model_mark": m.mark, "sut_leaves_set": ls, "sut_outcome": format!("{:?}", out), "hist": hist_id}));
                    }
                }
            }
            (Err(p), _) | (_, Err(p)) => {
                diverged = Some("observer-panic".into());
                if state_focus {
                    rep.violation(format!("{name}:{okind}:observer-panic:{}", p.file()), json!({"history": show_hist(k), "panic": p.msg, "at": p.loc}));
                }
            }
        }
        if diverged.is_some() {
            rep.count("histories_stopped_on_state_divergence");
            if cfg.focus == Focus::Proofs {
                // C07 speaks about the tree's *own* current root and stored leaves: even when the state has left
                // the model (another property's subject) every proof must still recompute the root the tree reports
                let watch = watch_positions(&m, &touched, rng);
                for &i in watch.iter().take(24) {
                    if check_proof_self(rep, &m, sut, i, &name, kind, &show_hist(k)) {
                        break;
                    }
                }
            }
            return HistResult { steps, diverged: true };
        }
        // ---- full observation
        let full = rejected || k + 1 == ops.len() || (k + 1) % cfg.full_obs_every == 0 || matches!(op, TOp::Reopen | TOp::Batch(..) | TOp::Init(..) | TOp::ComputeRoot);
        if !full {
            continue;
        }
        let watch = watch_positions(&m, &touched, rng);
        // leaves + subtree roots
        let mut bad: Option<(String, Value)> = None;
        'obs: for &i in &watch {
            match sut.get(i) {
                Ok(Some(v)) => {
                    if v != m.get(i) {
                        bad = Some(("leaf".into(), json!({"position": i, "model": fr_s(&m.get(i)), "sut": fr_s(&v)})));
                        break 'obs;
                    }
                }
                Ok(None) => {
                    bad = Some(("leaf-unreadable".into(), json!({"position": i})));
                    break 'obs;
                }
                Err(p) => {
                    bad = Some((format!("get-panic:{}", p.file()), json!({"position": i, "panic": p.msg})));
                    break 'obs;
                }
            }
            // all levels for small trees; otherwise the extremes plus two levels that change from observation to
            // observation (so that over a run every level is looked at)
            let levels: Vec<usize> = if depth <= 5 { (0..=depth).collect() } else { vec![0, 1, 2 + (k + i) % (depth - 3), 2 + (k * 7 + i * 3 + 1) % (depth - 3), depth - 1, depth] };
            for n in levels {
                match sut.subtree(n, i) {
                    Ok(Some(v)) => {
                        if Some(v) != m.subtree(n, i) {
                            bad = Some(("subtree-root".into(), json!({"level": n, "position": i, "model": m.subtree(n, i).map(|x| fr_s(&x)), "sut": fr_s(&v)})));
                            break 'obs;
                        }
                    }
                    Ok(None) => {
                        bad = Some(("subtree-root-unreadable".into(), json!({"level": n, "position": i})));
                        break 'obs;
                    }
                    Err(p) => {
                        bad = Some((format!("subtree-panic:{}", p.file()), json!({"level": n, "position": i, "panic": p.msg})));
                        break 'obs;
                    }
                }
            }
        }
        if let Some((what, d)) = bad {
            if state_focus {
                let sig = if op.is_batch() { format!("{fam}:{bkind}:state-differs") } else { format!("{name}:{okind}:{what}-differs") };
                rep.violation(sig, json!({"sut": name, "what": what, "rejected_by_model": rejected, "history": show_hist(k), "depth": depth, "detail": d, "hist": hist_id}));
            }
            rep.count("histories_stopped_on_state_divergence");
            return HistResult { steps, diverged: true };
        }
        // queries beyond capacity must be refused and change nothing
        if cfg.focus == Focus::State {
            let cap = m.cap();
            for i in [cap, cap + 1] {
                if let Ok(Some(_)) = sut.get(i) {
                    rep.violation(format!("{name}:get-beyond-capacity-answered"), json!({"position": i, "depth": depth}));
                }
            }
            // subtree roots the ideal tree does not have (level below the leaves, position beyond capacity): refused
            for (n, i) in [(depth + 1, 0usize), (depth + 2, cap - 1), (depth, cap), (depth / 2, cap), (0, cap + 1), (depth + 1, cap)] {
                rep.ev();
                if let Ok(Some(_)) = sut.subtree(n, i) {
                    rep.violation(format!("{name}:subtree-root-outside-the-tree-answered"), json!({"level": n, "position": i, "depth": depth}));
                }
            }
            rep.stratum(format!("subtree-queries-outside-the-tree|{name}|d{depth}"));
        }
        // ---- empties (C15)
        if cfg.focus == Focus::Empties {
            rep.ev();
            match sut.empties() {
                Ok(e) => {
                    let want = m.empties();
                    if e != want {
                        let extra: Vec<&usize> = e.iter().filter(|x| !want.contains(x)).take(5).collect();
                        let missing: Vec<&usize> = want.iter().filter(|x| !e.contains(x)).take(5).collect();
                        let cls = if !missing.is_empty() && extra.is_empty() { "missing" } else if missing.is_empty() && !extra.is_empty() { "extra" } else { "both" };
                        rep.violation(format!("{fam}:{bkind}:empties-differ"), json!({"sut": name, "class": cls, "rejected_by_model": rejected, "history": show_hist(k), "depth": depth, "model(first 20)": want.iter().take(20).collect::<Vec<_>>(), "sut(first 20)": e.iter().take(20).collect::<Vec<_>>(), "reported_but_not_empty": extra, "empty_but_not_reported": missing, "hist": hist_id}));
                        return HistResult { steps, diverged: true };
                    }
                }
                Err(p) => {
                    rep.violation(format!("{fam}:{bkind}:empties-panic:{}", p.file()), json!({"sut": name, "history": show_hist(k), "panic": p.msg}));
                    return HistResult { steps, diverged: true };
                }
            }
        }
        // ---- proofs (C07)
        if cfg.focus == Focus::Proofs {
            let positions: Vec<usize> = if depth <= 4 { watch.clone() } else { watch.iter().cloned().take(10).collect() };
            for &i in &positions {
                if check_proof(rep, &m, sut, i, &name, kind, rng, &show_hist(k)) {
                    return HistResult { steps, diverged: true };
                }
            }
        }
        // strata
        match cfg.focus {
            Focus::State => {
                if nontrivial {
                    rep.stratum(m.state_key());
                }
            }
            Focus::Batch => {
                if let TOp::Batch(s, v, rm) = op {
                    let rel = |r: &usize| if *r < *s { "before" } else if *r < s + v.len() { "inside" } else { "after" };
                    let mut rels: Vec<&str> = rm.iter().map(rel).collect();
                    rels.sort();
                    rels.dedup();
                    rep.stratum(format!("{name}|d{depth}|n={}|rm={}|rel={}|{}|start-vs-mark={}", v.len().min(9), rm.len().min(6), rels.join("+"), if rejected { "rejected" } else { "applied" }, (*s as i64 - before.mark as i64).clamp(-2, 2)));
                } else if let TOp::Init(v) = op {
                    rep.stratum(format!("{name}|d{depth}|init|n={}", v.len()));
                }
            }
            Focus::Empties => {
                rep.stratum(format!("{name}|d{depth}|{kind}|empties={}|mark={}", m.empties().len().min(12), m.mark.min(12)));
            }
            Focus::Proofs => {}
        }
    }
    // model self-check: incremental root == naive recomputation from the leaves
    if m.root() != m.naive_root() {
        rep.inconclusive("model self-check failed (incremental vs naive root)".to_string());
    }
    HistResult { steps, diverged: false }
}

/// C07 self-consistency at one position (used when the SUT's state differs from the model): the proof must
/// recompute the root the tree itself reports from the leaf the tree itself stores, and pass the tree's verify.
fn check_proof_self(rep: &mut Rep, m: &Model, sut: &mut dyn Sut, i: usize, name: &str, kind: &str, hist: &Value) -> bool {
    let (leaf, root, p) = match (sut.get(i), sut.root(), sut.proof(i)) {
        (Ok(Some(l)), Ok(r), Ok(Some(p))) => (l, r, p),
        _ => return false,
    };
    rep.ev();
    rep.stratum(format!("{name}|self-consistency|after={kind}"));
    if p.elements.len() != m.depth || p.bits.len() != m.depth {
        rep.violation(format!("{name}:proof:length"), json!({"position": i, "history": hist}));
        return true;
    }
    if m.fold(&leaf, &p.elements, &p.bits) != root {
        rep.violation(format!("{name}:proof:does-not-recompute-own-root"), json!({"position": i, "depth": m.depth, "history": hist, "note": "state already differs from the ideal tree; checked against the tree's own root and stored leaf"}));
        return true;
    }
    if sut.verify_own(i, &leaf) == Some(false) {
        rep.violation(format!("{name}:proof:own-proof-rejected"), json!({"position": i, "depth": m.depth, "history": hist}));
        return true;
    }
    false
}

/// C07 checks at one position; returns true if a violation was recorded
fn check_proof(rep: &mut Rep, m: &Model, sut: &mut dyn Sut, i: usize, name: &str, kind: &str, rng: &mut impl rand::RngCore, hist: &Value) -> bool {
    let depth = m.depth;
    let leaf = m.get(i);
    rep.ev();
    let p = match sut.proof(i) {
        Ok(Some(p)) => p,
        Ok(None) => {
            rep.violation(format!("{name}:proof:unavailable"), json!({"position": i, "depth": depth, "history": hist}));
            return true;
        }
        Err(pn) => {
            rep.violation(format!("{name}:proof:panic:{}", pn.file()), json!({"position": i, "panic": pn.msg, "history": hist}));
            return true;
        }
    };
    let (mels, mbits) = m.proof(i);
    let state_class = if m.leaves.is_empty() { "empty" } else if m.flags.values().any(|f| *f == Flag::Removed) { "with-removals" } else { "written" };
    rep.stratum(format!("{name}|d{depth}|pos={}|after={kind}|{state_class}", if i == 0 { "0".into() } else if i + 1 == m.cap() { "last".into() } else if i >= m.cap() / 2 { "right".to_string() } else { "left".to_string() }));
    if p.elements.len() != depth || p.bits.len() != depth || p.length.map(|l| l != depth).unwrap_or(false) {
        rep.violation(format!("{name}:proof:length"), json!({"position": i, "depth": depth, "elements": p.elements.len(), "bits": p.bits.len(), "length()": p.length, "history": hist}));
        return true;
    }
    let decoded: usize = p.bits.iter().enumerate().map(|(k, b)| (*b as usize) << k).sum();
    if decoded != i || p.bits.iter().any(|b| *b > 1) || p.leaf_index.map(|l| l != i).unwrap_or(false) {
        rep.violation(format!("{name}:proof:position-encoding"), json!({"position": i, "bits": p.bits, "leaf_index()": p.leaf_index, "history": hist}));
        return true;
    }
    if m.fold(&leaf, &p.elements, &p.bits) != m.root() || p.elements != mels || p.bits != mbits {
        rep.violation(format!("{name}:proof:does-not-recompute-root"), json!({"position": i, "depth": depth, "model_siblings": mels.iter().map(fr_s).collect::<Vec<_>>(), "sut_siblings": p.elements.iter().map(fr_s).collect::<Vec<_>>(), "history": hist}));
        return true;
    }
    if let Some(r) = sut.proof_root_from(i, &leaf) {
        if r != m.root() {
            rep.violation(format!("{name}:proof:compute_root_from-differs"), json!({"position": i, "history": hist}));
            return true;
        }
        // binding: a different leaf must not give the root
        let other = leaf + Fr::from(1u64);
        if sut.proof_root_from(i, &other) == Some(m.root()) {
            rep.violation(format!("{name}:proof:root-from-different-leaf"), json!({"position": i, "history": hist}));
            return true;
        }
    }
    match sut.verify_own(i, &leaf) {
        Some(true) | None => {}
        Some(false) => {
            rep.violation(format!("{name}:proof:own-proof-rejected"), json!({"position": i, "depth": depth, "history": hist}));
            return true;
        }
    }
    if sut.verify_own(i, &(leaf + Fr::from(1u64))) == Some(true) {
        rep.violation(format!("{name}:verify:accepts-different-leaf"), json!({"position": i, "history": hist}));
        return true;
    }
    // tampering: each sibling (+1, random, swapped with another level), each direction bit
    let parts: Vec<(Fr, u8)> = p.elements.iter().cloned().zip(p.bits.iter().cloned()).collect();
    if sut.verify_parts(&leaf, &parts).is_none() {
        return false;
    }
    let mut tampers: Vec<(String, Vec<(Fr, u8)>)> = vec![];
    let levels: Vec<usize> = if depth <= 8 { (0..depth).collect() } else { vec![0, 1, depth / 2, depth - 2, depth - 1] };
    for &l in &levels {
        let mut t = parts.clone();
        t[l].0 += Fr::from(1u64);
        tampers.push((format!("sibling+1@{l}"), t));
        let mut t = parts.clone();
        t[l].0 = rand_fr(rng);
        tampers.push((format!("sibling-random@{l}"), t));
        if depth > 1 {
            let o = (l + 1) % depth;
            let mut t = parts.clone();
            let tmp = t[l].0;
            t[l].0 = t[o].0;
            t[o].0 = tmp;
            tampers.push((format!("sibling-swap@{l}"), t));
        }
        let mut t = parts.clone();
        t[l].1 ^= 1;
        tampers.push((format!("bit-flip@{l}"), t));
    }
    // proofs with a level missing or added (they fold to something that is not the root)
    if depth > 1 {
        tampers.push(("level-dropped@top".into(), parts[..depth - 1].to_vec()));
        tampers.push(("level-dropped@bottom".into(), parts[1..].to_vec()));
    }
    {
        let mut t = parts.clone();
        t.push((parts[depth - 1].0, 0));
        tampers.push(("level-added@top".into(), t));
    }
    // control: the untampered parts are accepted
    tampers.push(("untampered".into(), parts.clone()));
    for (what, t) in tampers {
        rep.ev();
        let els: Vec<Fr> = t.iter().map(|x| x.0).collect();
        let bits: Vec<u8> = t.iter().map(|x| x.1).collect();
        let same_root = m.fold(&leaf, &els, &bits) == m.root();
        let acc = sut.verify_parts(&leaf, &t);
        if !same_root && acc == Some(true) {
            rep.violation(format!("{name}:verify:accepts-tampered:{}", what.split('@').next().unwrap()), json!({"position": i, "tamper": what, "depth": depth, "history": hist}));
            return true;
        }
        if what == "untampered" && acc != Some(true) {
            rep.violation(format!("{name}:verify:rejects-rebuilt-proof"), json!({"position": i, "depth": depth, "history": hist}));
            return true;
        }
        if same_root && what != "untampered" {
            rep.count("tamper_with_equal_children(no requirement)");
        }
    }
    false
}
