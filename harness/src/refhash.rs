//! Independent reference implementations written from the specifications (DESIGN.md Appendix A),
//! not from zerokit's code: Poseidon over BN254 Fr with Grain-LFSR generated constants, Keccak-256,
//! ChaCha20-based seeded identity derivation. Only arkworks' field arithmetic is shared with zerokit.
#![allow(dead_code)]

use crate::common::*;
use ark_bn254::Fr;
use ark_ff::{Field, Zero};
use num_bigint::BigUint;
use std::sync::OnceLock;

const N_BITS: usize = 254;
const RF: usize = 8;
const RP_TABLE: [usize; 8] = [56, 57, 56, 60, 60, 63, 64, 63]; // t = 2..9

struct Grain {
    s: Vec<u8>, // 80 bits
}

impl Grain {
    fn new(t: usize, rf: usize, rp: usize) -> Self {
        let mut bits: Vec<u8> = vec![];
        let mut put = |v: usize, n: usize| {
            for i in 0..n {
                bits.push(((v >> (n - 1 - i)) & 1) as u8);
            }
        };
        put(1, 2); // prime field
        put(0, 4); // s-box x^alpha
        put(N_BITS, 12);
        put(t, 12);
        put(rf, 10);
        put(rp, 10);
        for _ in 0..30 {
            bits.push(1);
        }
        assert_eq!(bits.len(), 80);
        let mut g = Grain { s: bits };
        for _ in 0..160 {
            g.step();
        }
        g
    }
    fn step(&mut self) -> u8 {
        let s = &self.s;
        let b = s[62] ^ s[51] ^ s[38] ^ s[23] ^ s[13] ^ s[0];
        self.s.remove(0);
        self.s.push(b);
        b
    }
    fn bit(&mut self) -> u8 {
        loop {
            let a = self.step();
            let b = self.step();
            if a == 1 {
                return b;
            }
        }
    }
    fn bits_int(&mut self, n: usize) -> BigUint {
        let mut v = BigUint::from(0u8);
        for _ in 0..n {
            v = (v << 1) | BigUint::from(self.bit());
        }
        v
    }
    fn fe_reject(&mut self, p: &BigUint) -> BigUint {
        loop {
            let v = self.bits_int(N_BITS);
            if &v < p {
                return v;
            }
        }
    }
    fn fe_mod(&mut self, p: &BigUint) -> BigUint {
        self.bits_int(N_BITS) % p
    }
}

pub struct Params {
    pub t: usize,
    pub rp: usize,
    pub c: Vec<Fr>,
    pub m: Vec<Vec<Fr>>,
}

fn gen_params(t: usize) -> Params {
    let p = p();
    let rp = RP_TABLE[t - 2];
    let mut g = Grain::new(t, RF, rp);
    let c: Vec<Fr> = (0..(RF + rp) * t).map(|_| big_to_fr(&g.fe_reject(&p))).collect();
    let xs: Vec<Fr> = (0..t).map(|_| big_to_fr(&g.fe_mod(&p))).collect();
    let ys: Vec<Fr> = (0..t).map(|_| big_to_fr(&g.fe_mod(&p))).collect();
    let m = (0..t)
        .map(|i| (0..t).map(|j| (xs[i] + ys[j]).inverse().expect("x_i + y_j != 0")).collect())
        .collect();
    Params { t, rp, c, m }
}

static PARAMS: OnceLock<Vec<Params>> = OnceLock::new();

pub fn params(t: usize) -> &'static Params {
    let all = PARAMS.get_or_init(|| (2..=9).map(gen_params).collect());
    &all[t - 2]
}

/// Reference Poseidon hash of 1..=8 field elements (state width t = n + 1, capacity element 0).
pub fn poseidon_ref(inputs: &[Fr]) -> Fr {
    assert!(!inputs.is_empty() && inputs.len() <= 8);
    let t = inputs.len() + 1;
    let pr = params(t);
    let mut st: Vec<Fr> = Vec::with_capacity(t);
    st.push(Fr::zero());
    st.extend_from_slice(inputs);
    for r in 0..(RF + pr.rp) {
        for i in 0..t {
            st[i] += pr.c[r * t + i];
        }
        if r < RF / 2 || r >= RF / 2 + pr.rp {
            for x in st.iter_mut() {
                let x2 = x.square();
                *x = x2.square() * *x;
            }
        } else {
            let x2 = st[0].square();
            st[0] = x2.square() * st[0];
        }
        let mut nst = vec![Fr::zero(); t];
        for i in 0..t {
            let mut acc = Fr::zero();
            for j in 0..t {
                acc += pr.m[i][j] * st[j];
            }
            nst[i] = acc;
        }
        st = nst;
    }
    st[0]
}

// ---------------------------------------------------------------------------------------------
// Keccak-256 (Keccak-f[1600], rate 136, pad10*1 with domain byte 0x01)
// ---------------------------------------------------------------------------------------------

const RC: [u64; 24] = [
    0x0000000000000001, 0x0000000000008082, 0x800000000000808A, 0x8000000080008000, 0x000000000000808B,
    0x0000000080000001, 0x8000000080008081, 0x8000000000008009, 0x000000000000008A, 0x0000000000000088,
    0x0000000080008009, 0x000000008000000A, 0x000000008000808B, 0x800000000000008B, 0x8000000000008089,
    0x8000000000008003, 0x8000000000008002, 0x8000000000000080, 0x000000000000800A, 0x800000008000000A,
    0x8000000080008081, 0x8000000000008080, 0x0000000080000001, 0x8000000080008008,
];
// rotation offsets r[x][y]
const ROT: [[u32; 5]; 5] = [
    [0, 36, 3, 41, 18],
    [1, 44, 10, 45, 2],
    [62, 6, 43, 15, 61],
    [28, 55, 25, 21, 56],
    [27, 20, 39, 8, 14],
];

fn keccak_f(a: &mut [[u64; 5]; 5]) {
    for rc in RC.iter() {
        let mut c = [0u64; 5];
        for x in 0..5 {
            c[x] = a[x][0] ^ a[x][1] ^ a[x][2] ^ a[x][3] ^ a[x][4];
        }
        for x in 0..5 {
            let d = c[(x + 4) % 5] ^ c[(x + 1) % 5].rotate_left(1);
            for y in 0..5 {
                a[x][y] ^= d;
            }
        }
        let mut b = [[0u64; 5]; 5];
        for x in 0..5 {
            for y in 0..5 {
                b[y][(2 * x + 3 * y) % 5] = a[x][y].rotate_left(ROT[x][y]);
            }
        }
        for x in 0..5 {
            for y in 0..5 {
                a[x][y] = b[x][y] ^ ((!b[(x + 1) % 5][y]) & b[(x + 2) % 5][y]);
            }
        }
        a[0][0] ^= rc;
    }
}

pub fn keccak256_ref(data: &[u8]) -> [u8; 32] {
    const RATE: usize = 136;
    let mut p = data.to_vec();
    p.push(0x01);
    while p.len() % RATE != 0 {
        p.push(0);
    }
    let l = p.len();
    p[l - 1] |= 0x80;
    let mut a = [[0u64; 5]; 5];
    for blk in p.chunks(RATE) {
        for i in 0..RATE / 8 {
            let (x, y) = (i % 5, i / 5);
            a[x][y] ^= u64::from_le_bytes(blk[8 * i..8 * i + 8].try_into().unwrap());
        }
        keccak_f(&mut a);
    }
    let mut out = [0u8; 32];
    for i in 0..4 {
        let (x, y) = (i % 5, i / 5);
        out[8 * i..8 * i + 8].copy_from_slice(&a[x][y].to_le_bytes());
    }
    out
}

pub fn hash_to_field_ref(b: &[u8]) -> Fr {
    big_to_fr_mod(&BigUint::from_bytes_le(&keccak256_ref(b)))
}

// ---------------------------------------------------------------------------------------------
// Seeded identities: Keccak-256(seed) -> ChaCha20 stream -> arkworks-style rejection sampling
// ---------------------------------------------------------------------------------------------

fn qr(s: &mut [u32; 16], a: usize, b: usize, c: usize, d: usize) {
    s[a] = s[a].wrapping_add(s[b]);
    s[d] = (s[d] ^ s[a]).rotate_left(16);
    s[c] = s[c].wrapping_add(s[d]);
    s[b] = (s[b] ^ s[c]).rotate_left(12);
    s[a] = s[a].wrapping_add(s[b]);
    s[d] = (s[d] ^ s[a]).rotate_left(8);
    s[c] = s[c].wrapping_add(s[d]);
    s[b] = (s[b] ^ s[c]).rotate_left(7);
}

fn chacha_block(key: &[u32; 8], counter: u64) -> [u32; 16] {
    let mut init = [0u32; 16];
    init[0] = 0x61707865;
    init[1] = 0x3320646e;
    init[2] = 0x79622d32;
    init[3] = 0x6b206574;
    init[4..12].copy_from_slice(key);
    init[12] = counter as u32;
    init[13] = (counter >> 32) as u32;
    init[14] = 0;
    init[15] = 0;
    let mut s = init;
    for _ in 0..10 {
        qr(&mut s, 0, 4, 8, 12);
        qr(&mut s, 1, 5, 9, 13);
        qr(&mut s, 2, 6, 10, 14);
        qr(&mut s, 3, 7, 11, 15);
        qr(&mut s, 0, 5, 10, 15);
        qr(&mut s, 1, 6, 11, 12);
        qr(&mut s, 2, 7, 8, 13);
        qr(&mut s, 3, 4, 9, 14);
    }
    for i in 0..16 {
        s[i] = s[i].wrapping_add(init[i]);
    }
    s
}

struct ChaRng {
    key: [u32; 8],
    ctr: u64,
    buf: Vec<u32>,
}

impl ChaRng {
    fn new(seed: &[u8; 32]) -> Self {
        let mut key = [0u32; 8];
        for i in 0..8 {
            key[i] = u32::from_le_bytes(seed[4 * i..4 * i + 4].try_into().unwrap());
        }
        ChaRng { key, ctr: 0, buf: vec![] }
    }
    fn u32(&mut self) -> u32 {
        if self.buf.is_empty() {
            self.buf = chacha_block(&self.key, self.ctr).to_vec();
            self.ctr += 1;
        }
        self.buf.remove(0)
    }
    fn u64(&mut self) -> u64 {
        let lo = self.u32() as u64;
        let hi = self.u32() as u64;
        lo | (hi << 32)
    }
}

fn fr_rand_ref(rng: &mut ChaRng) -> Fr {
    let p = p();
    // R^-1 mod p with R = 2^256
    let rinv = {
        let r: BigUint = (BigUint::from(1u8) << 256usize) % &p;
        r.modpow(&(&p - BigUint::from(2u8)), &p)
    };
    loop {
        let mut limbs = [0u64; 4];
        for l in limbs.iter_mut() {
            *l = rng.u64();
        }
        limbs[3] &= (1u64 << 62) - 1;
        let mut raw = BigUint::from(0u8);
        for (i, l) in limbs.iter().enumerate() {
            raw += BigUint::from(*l) << (64 * i);
        }
        if raw < p {
            return big_to_fr(&((raw * &rinv) % &p));
        }
    }
}

pub fn seeded_keygen_ref(seed: &[u8]) -> (Fr, Fr) {
    let mut rng = ChaRng::new(&keccak256_ref(seed));
    let s = fr_rand_ref(&mut rng);
    (s, poseidon_ref(&[s]))
}

/// The first `n` field elements of the seeded generator's stream (what any number of draws from it would return).
pub fn seeded_stream_ref(seed: &[u8], n: usize) -> Vec<Fr> {
    let mut rng = ChaRng::new(&keccak256_ref(seed));
    (0..n).map(|_| fr_rand_ref(&mut rng)).collect()
}

pub fn extended_seeded_keygen_ref(seed: &[u8]) -> (Fr, Fr, Fr, Fr) {
    let mut rng = ChaRng::new(&keccak256_ref(seed));
    let t = fr_rand_ref(&mut rng);
    let n = fr_rand_ref(&mut rng);
    let s = poseidon_ref(&[t, n]);
    (t, n, s, poseidon_ref(&[s]))
}

/// Anchors that do not come from zerokit's code: circomlib's published Poseidon vectors and the
/// Keccak-256 test vectors. Returns the list of failed anchors (must be empty).
pub fn self_test() -> Vec<String> {
    let mut bad = vec![];
    let f = |s: &str| -> Fr {
        if let Some(h) = s.strip_prefix("0x") {
            big_to_fr(&BigUint::parse_bytes(h.as_bytes(), 16).unwrap())
        } else {
            big_to_fr(&s.parse::<BigUint>().unwrap())
        }
    };
    let n = |v: u64| Fr::from(v);
    if poseidon_ref(&[n(1), n(2)]) != f("0x115cc0f5e7d690413df64c6b9662e9cf2a3617f2743245519e19607a4417189a") {
        bad.push("poseidon([1,2]) circomlib vector".into());
    }
    if poseidon_ref(&[n(1), n(2), n(3), n(4)]) != f("0x299c867db6c1fdd79dcefa40e4510b9837e60ebb1ce0663dbaa525df65250465") {
        bad.push("poseidon([1,2,3,4]) circomlib vector".into());
    }
    if poseidon_ref(&[n(0)]) != f("19014214495641488759237505126948346942972912379615652741039992445865937985820") {
        bad.push("poseidon([0])".into());
    }
    if poseidon_ref(&[n(1)]) != f("18586133768512220936620570745912940619677854269274689475585506675881198879027") {
        bad.push("poseidon([1])".into());
    }
    if poseidon_ref(&[n(1), n(2), n(3), n(4), n(5), n(6)]) != f("20400040500897583745843009878988256314335038853985262692600694741116813247201") {
        bad.push("poseidon([1..6]) circomlib vector".into());
    }
    if hex(&keccak256_ref(b"")) != "c5d2460186f7233c927e7db2dcc703c0e500b653ca82273b7bfad8045d85a470" {
        bad.push("keccak256('')".into());
    }
    if hex(&keccak256_ref(b"abc")) != "4e03657aea45a94fc7d47ba826c8d667c0d1e6e33a64a036ec44f58fa12d6c45" {
        bad.push("keccak256('abc')".into());
    }
    // 200 bytes of 0xa3 (NIST-style long message, Keccak-256 variant)
    let (s, c) = seeded_keygen_ref(&[0, 1, 2, 3, 4, 5, 6, 7, 8, 9]);
    if s != f("0x766ce6c7e7a01bdf5b3f257616f603918c30946fa23480f2859c597817e6716")
        || c != f("0xbf16d2b5c0d6f9d9d561e05bfca16a81b4b873bb063508fae360d8c74cef51f")
    {
        bad.push("seeded_keygen([0..9]) documented vector".into());
    }
    bad
}
