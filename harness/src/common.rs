//! Shared machinery of the monitors: report/evidence accumulator, deterministic PRNG,
//! panic capture, boundary grids, hex helpers.
#![allow(dead_code)]

use ark_bn254::Fr;
use ark_ff::{BigInteger, PrimeField};
use num_bigint::BigUint;
use rand::{Rng, RngCore, SeedableRng};
use rand_chacha::ChaCha8Rng;
use serde_json::{json, Value};
use std::cell::RefCell;
use std::collections::{BTreeMap, BTreeSet};
use std::panic::{catch_unwind, AssertUnwindSafe};
use std::time::Instant;

pub const P_DEC: &str =
    "21888242871839275222246405745257275088548364400416034343698204186575808495617";

pub fn p() -> BigUint {
    P_DEC.parse().unwrap()
}

pub fn fr_to_big(x: &Fr) -> BigUint {
    BigUint::from_bytes_le(&x.into_bigint().to_bytes_le())
}

/// value must be < p (asserted) -- harness-side constructor that never silently reduces.
pub fn big_to_fr(x: &BigUint) -> Fr {
    assert!(x < &p(), "big_to_fr: value not canonical");
    Fr::from_le_bytes_mod_order(&x.to_bytes_le())
}

pub fn big_to_fr_mod(x: &BigUint) -> Fr {
    Fr::from_le_bytes_mod_order(&(x % p()).to_bytes_le())
}

pub fn big_to_le32(x: &BigUint) -> [u8; 32] {
    let mut out = [0u8; 32];
    let b = x.to_bytes_le();
    assert!(b.len() <= 32);
    out[..b.len()].copy_from_slice(&b);
    out
}

pub fn fr_le32(x: &Fr) -> [u8; 32] {
    big_to_le32(&fr_to_big(x))
}

pub fn hex(b: &[u8]) -> String {
    let mut s = String::with_capacity(b.len() * 2);
    for x in b {
        s.push_str(&format!("{:02x}", x));
    }
    s
}

pub fn unhex(s: &str) -> Vec<u8> {
    (0..s.len() / 2)
        .map(|i| u8::from_str_radix(&s[2 * i..2 * i + 2], 16).unwrap())
        .collect()
}

pub fn hex_short(b: &[u8]) -> String {
    if b.len() <= 48 {
        hex(b)
    } else {
        format!("{}..({} bytes)..{}", hex(&b[..16]), b.len(), hex(&b[b.len() - 8..]))
    }
}

pub fn fr_s(x: &Fr) -> String {
    fr_to_big(x).to_string()
}

// ---------------------------------------------------------------------------------------------
// PRNG
// ---------------------------------------------------------------------------------------------

pub fn fnv64(s: &str) -> u64 {
    let mut h: u64 = 0xCBF29CE484222325;
    for b in s.bytes() {
        h ^= b as u64;
        h = h.wrapping_mul(0x100000001B3);
    }
    h
}

pub fn rng_for(seed: u64, tag: &str) -> ChaCha8Rng {
    ChaCha8Rng::seed_from_u64(seed.wrapping_mul(0x9E3779B97F4A7C15) ^ fnv64(tag))
}

pub fn rand_big_below(rng: &mut (impl RngCore + ?Sized), bound: &BigUint) -> BigUint {
    // rejection sampling on 256 bits
    loop {
        let mut b = [0u8; 32];
        rng.fill_bytes(&mut b);
        b[31] &= 0x3f;
        let v = BigUint::from_bytes_le(&b);
        if &v < bound {
            return v;
        }
    }
}

pub fn rand_fr(rng: &mut (impl RngCore + ?Sized)) -> Fr {
    big_to_fr(&rand_big_below(rng, &p()))
}

pub fn rand_bytes(rng: &mut (impl RngCore + ?Sized), n: usize) -> Vec<u8> {
    let mut v = vec![0u8; n];
    rng.fill_bytes(&mut v);
    v
}

pub fn pick<'a, T>(rng: &mut (impl RngCore + ?Sized), xs: &'a [T]) -> &'a T {
    &xs[rng.gen_range(0..xs.len())]
}

// ---------------------------------------------------------------------------------------------
// Boundary grids
// ---------------------------------------------------------------------------------------------

/// The statement's full boundary grid for C19: {0,1,2, 2^k-1, 2^k, 2^k+1 (k=8..254, values >= p
/// dropped), (p-1)/2, (p+1)/2, p-2, p-1}, labelled.
pub fn full_grid() -> Vec<(String, BigUint)> {
    let p = p();
    let one = BigUint::from(1u8);
    let mut out: Vec<(String, BigUint)> = vec![];
    let mut seen = BTreeSet::new();
    let mut push = |l: String, v: BigUint, out: &mut Vec<(String, BigUint)>| {
        if v < p && seen.insert(v.clone()) {
            out.push((l, v));
        }
    };
    push("0".into(), BigUint::from(0u8), &mut out);
    push("1".into(), one.clone(), &mut out);
    push("2".into(), BigUint::from(2u8), &mut out);
    for k in 8..=254u32 {
        let t = &one << k;
        push(format!("2^{k}-1"), &t - &one, &mut out);
        push(format!("2^{k}"), t.clone(), &mut out);
        push(format!("2^{k}+1"), &t + &one, &mut out);
    }
    push("(p-1)/2".into(), (&p - &one) >> 1, &mut out);
    push("(p+1)/2".into(), (&p + &one) >> 1, &mut out);
    push("p-2".into(), &p - BigUint::from(2u8), &mut out);
    push("p-1".into(), &p - &one, &mut out);
    out
}

/// A small grid (about 60 values) hitting limb boundaries, p/2 and p.
pub fn small_grid() -> Vec<(String, BigUint)> {
    let p = p();
    let one = BigUint::from(1u8);
    let mut out: Vec<(String, BigUint)> = vec![];
    let mut seen = BTreeSet::new();
    let mut push = |l: String, v: BigUint, out: &mut Vec<(String, BigUint)>| {
        if v < p && seen.insert(v.clone()) {
            out.push((l, v));
        }
    };
    for v in [0u32, 1, 2, 3, 5, 7, 8, 63, 64, 65, 127, 128, 253, 254, 255, 256, 257] {
        push(format!("{v}"), BigUint::from(v), &mut out);
    }
    for k in [8u32, 16, 31, 32, 63, 64, 65, 127, 128, 129, 191, 192, 193, 252, 253] {
        let t = &one << k;
        push(format!("2^{k}-1"), &t - &one, &mut out);
        push(format!("2^{k}"), t.clone(), &mut out);
        push(format!("2^{k}+1"), &t + &one, &mut out);
    }
    push("(p-1)/2-1".into(), ((&p - &one) >> 1) - &one, &mut out);
    push("(p-1)/2".into(), (&p - &one) >> 1, &mut out);
    push("(p+1)/2".into(), (&p + &one) >> 1, &mut out);
    push("(p+1)/2+1".into(), ((&p + &one) >> 1) + &one, &mut out);
    for d in [1u32, 2, 3, 64, 253, 254, 255, 256] {
        push(format!("p-{d}"), &p - BigUint::from(d), &mut out);
    }
    out
}

/// Field boundary values used as secrets / nullifiers / leaves.
pub fn fr_boundary() -> Vec<(String, Fr)> {
    let p = p();
    let one = BigUint::from(1u8);
    let mut v: Vec<(String, BigUint)> = vec![
        ("0".into(), BigUint::from(0u8)),
        ("1".into(), one.clone()),
        ("2".into(), BigUint::from(2u8)),
        ("2^64-1".into(), (&one << 64) - &one),
        ("2^64".into(), &one << 64),
        ("2^128-1".into(), (&one << 128) - &one),
        ("2^128+1".into(), (&one << 128) + &one),
        ("2^192-1".into(), (&one << 192) - &one),
        ("2^192+1".into(), (&one << 192) + &one),
        ("2^253".into(), &one << 253),
        ("(p-1)/2".into(), (&p - &one) >> 1),
        ("(p+1)/2".into(), (&p + &one) >> 1),
        ("p-2".into(), &p - BigUint::from(2u8)),
        ("p-1".into(), &p - &one),
        // value whose LE encoding has leading (most significant) zero bytes
        ("2^200".into(), &one << 200),
        ("255".into(), BigUint::from(255u32)),
    ];
    v.dedup_by(|a, b| a.1 == b.1);
    v.into_iter().map(|(l, b)| (l, big_to_fr(&b))).collect()
}

pub fn class_of_big(v: &BigUint) -> String {
    let p = p();
    let one = BigUint::from(1u8);
    if v == &BigUint::from(0u8) {
        return "0".into();
    }
    if v == &one {
        return "1".into();
    }
    if v == &(&p - &one) {
        return "p-1".into();
    }
    if v >= &(&p - BigUint::from(4u8)) {
        return "near-p".into();
    }
    let half = (&p - &one) >> 1;
    if v == &half || v == &(&half + &one) {
        return "half".into();
    }
    let bits = v.bits();
    // is it 2^k or 2^k +- 1 ?
    let t = &one << (bits - 1);
    if v == &t || v == &(&t + &one) || (v + &one) == (&one << bits) {
        return format!("pow2@{}", bits / 64);
    }
    if v > &half {
        format!("neg@{}", bits / 64)
    } else {
        format!("mid@{}", bits / 64)
    }
}

// ---------------------------------------------------------------------------------------------
// Panic capture
// ---------------------------------------------------------------------------------------------

thread_local! {
    static LAST_PANIC: RefCell<Option<(String, String)>> = const { RefCell::new(None) };
    static CATCH_DEPTH: RefCell<u32> = const { RefCell::new(0) };
}

pub fn install_panic_hook() {
    std::panic::set_hook(Box::new(|info| {
        let msg = if let Some(s) = info.payload().downcast_ref::<&str>() {
            s.to_string()
        } else if let Some(s) = info.payload().downcast_ref::<String>() {
            s.clone()
        } else {
            "<non-string panic>".to_string()
        };
        let loc = info
            .location()
            .map(|l| format!("{}:{}", l.file(), l.line()))
            .unwrap_or_else(|| "<unknown>".into());
        if CATCH_DEPTH.with(|d| *d.borrow()) == 0 {
            // a panic of the harness itself (not of monitored code): make it visible
            eprintln!("[vh] harness panic: {msg} at {loc}");
        }
        LAST_PANIC.with(|p| *p.borrow_mut() = Some((msg, loc)));
    }));
}

#[derive(Debug, Clone)]
pub struct Panicked {
    pub msg: String,
    pub loc: String,
}

impl Panicked {
    /// location reduced to "file-suffix" (no line), stable under unrelated edits of the file
    pub fn file(&self) -> String {
        let f = self.loc.split(':').next().unwrap_or("");
        let f = f.rsplit("/src/").next().unwrap_or(f);
        f.to_string()
    }
    pub fn short_msg(&self) -> String {
        let m: String = self.msg.chars().take(60).collect();
        // strip numbers so the signature does not depend on concrete values
        let mut out = String::new();
        let mut last_digit = false;
        for c in m.chars() {
            if c.is_ascii_digit() {
                if !last_digit {
                    out.push('N');
                }
                last_digit = true;
            } else {
                out.push(c);
                last_digit = false;
            }
        }
        out
    }
}

pub fn catch<T>(f: impl FnOnce() -> T) -> Result<T, Panicked> {
    LAST_PANIC.with(|p| *p.borrow_mut() = None);
    CATCH_DEPTH.with(|d| *d.borrow_mut() += 1);
    let res = catch_unwind(AssertUnwindSafe(f));
    CATCH_DEPTH.with(|d| *d.borrow_mut() -= 1);
    match res {
        Ok(v) => Ok(v),
        Err(_) => {
            let (msg, loc) = LAST_PANIC
                .with(|p| p.borrow_mut().take())
                .unwrap_or(("<no message>".into(), "<unknown>".into()));
            Err(Panicked { msg, loc })
        }
    }
}

// ---------------------------------------------------------------------------------------------
// Report
// ---------------------------------------------------------------------------------------------

pub struct Rep {
    pub prop: String,
    pub tier: String,
    pub seed: u64,
    pub t0: Instant,
    pub evaluations: u64,
    pub strata: BTreeSet<String>,
    pub samples: Vec<Value>,
    pub violations: BTreeMap<String, (u64, Vec<Value>)>,
    pub inconclusive: BTreeMap<String, u64>,
    pub counters: BTreeMap<String, u64>,
    pub notes: BTreeMap<String, Value>,
    pub rule: String,
    pub assumptions: Vec<String>,
    pub max_samples: usize,
}

impl Rep {
    pub fn new(prop: &str, tier: &str, seed: u64) -> Self {
        Rep {
            prop: prop.into(),
            tier: tier.into(),
            seed,
            t0: Instant::now(),
            evaluations: 0,
            strata: BTreeSet::new(),
            samples: vec![],
            violations: BTreeMap::new(),
            inconclusive: BTreeMap::new(),
            counters: BTreeMap::new(),
            notes: BTreeMap::new(),
            rule: String::new(),
            assumptions: vec![],
            max_samples: 8,
        }
    }
    pub fn thorough(&self) -> bool {
        self.tier == "thorough"
    }
    pub fn ev(&mut self) {
        self.evaluations += 1;
    }
    pub fn evn(&mut self, n: u64) {
        self.evaluations += n;
    }
    pub fn stratum(&mut self, s: impl Into<String>) {
        self.strata.insert(s.into());
    }
    pub fn count(&mut self, k: &str) {
        *self.counters.entry(k.into()).or_insert(0) += 1;
    }
    pub fn countn(&mut self, k: &str, n: u64) {
        *self.counters.entry(k.into()).or_insert(0) += n;
    }
    pub fn sample(&mut self, v: Value) {
        if self.samples.len() < self.max_samples {
            self.samples.push(v);
        }
    }
    pub fn violation(&mut self, sig: impl Into<String>, detail: Value) {
        let e = self.violations.entry(sig.into()).or_insert((0, vec![]));
        e.0 += 1;
        if e.1.len() < 3 {
            e.1.push(detail);
        }
    }
    pub fn inconclusive(&mut self, why: impl Into<String>) {
        *self.inconclusive.entry(why.into()).or_insert(0) += 1;
    }
    pub fn note(&mut self, k: &str, v: Value) {
        self.notes.insert(k.into(), v);
    }
    pub fn merge(&mut self, o: Rep) {
        self.evaluations += o.evaluations;
        self.strata.extend(o.strata);
        for s in o.samples {
            self.sample(s);
        }
        for (k, (n, d)) in o.violations {
            let e = self.violations.entry(k).or_insert((0, vec![]));
            e.0 += n;
            for x in d {
                if e.1.len() < 3 {
                    e.1.push(x);
                }
            }
        }
        for (k, n) in o.inconclusive {
            *self.inconclusive.entry(k).or_insert(0) += n;
        }
        for (k, n) in o.counters {
            *self.counters.entry(k).or_insert(0) += n;
        }
        for (k, v) in o.notes {
            self.notes.entry(k).or_insert(v);
        }
    }
    pub fn child(&self) -> Rep {
        let mut r = Rep::new(&self.prop, &self.tier, self.seed);
        r.max_samples = self.max_samples;
        r
    }
    pub fn to_json(&self) -> Value {
        let viols: Vec<Value> = self
            .violations
            .iter()
            .map(|(k, (n, d))| json!({"sig": k, "count": n, "details": d}))
            .collect();
        let strata_list: Vec<&String> = self.strata.iter().take(200_000).collect();
        json!({
            "property_id": self.prop,
            "tier": self.tier,
            "seed": self.seed,
            "evaluations": self.evaluations,
            "distinct_nontrivial": self.strata.len(),
            "strata_all": strata_list,
            "rule": self.rule,
            "samples": self.samples,
            "violations": viols,
            "inconclusive": self.inconclusive,
            "counters": self.counters,
            "notes": self.notes,
            "assumptions": self.assumptions,
            "wall_s": self.t0.elapsed().as_secs_f64(),
        })
    }
    pub fn write(&self, path: &str) {
        std::fs::write(path, serde_json::to_vec_pretty(&self.to_json()).unwrap()).unwrap();
    }
}

/// Run `f(shard_index, child_rep)` on `n` threads and merge.
pub fn par_shards(rep: &mut Rep, n: usize, f: impl Fn(usize, &mut Rep) + Sync) {
    let kids: Vec<Rep> = std::thread::scope(|s| {
        let hs: Vec<_> = (0..n)
            .map(|i| {
                let mut r = rep.child();
                let f = &f;
                s.spawn(move || {
                    f(i, &mut r);
                    r
                })
            })
            .collect();
        hs.into_iter().map(|h| h.join().expect("shard thread panicked")).collect()
    });
    for k in kids {
        rep.merge(k);
    }
}

pub fn ncpu() -> usize {
    std::thread::available_parallelism().map(|n| n.get()).unwrap_or(4)
}
