//! vh -- workload + monitor binary of the zerokit runtime-verification harness.
//! usage: vh <property|subcommand> --tier quick|thorough --seed N --out <result.json> [extra args]
mod circomref;
mod codec;
mod ffiu;
mod model;
mod trees;
mod noderef;
mod refhash;
mod rlnx;
mod common;
mod props;

use common::*;

fn arg(args: &[String], name: &str) -> Option<String> {
    args.iter().position(|a| a == name).and_then(|i| args.get(i + 1).cloned())
}

fn main() {
    let args: Vec<String> = std::env::args().collect();
    if args.len() < 2 {
        eprintln!("usage: vh <property> --tier quick|thorough --seed N --out file");
        std::process::exit(2);
    }
    let prop = args[1].clone();
    // child-process sub-commands (used by workloads that need separate processes)
    if let Some(code) = props::subcommand(&prop, &args) {
        std::process::exit(code);
    }
    let tier = arg(&args, "--tier").unwrap_or_else(|| "quick".into());
    let seed: u64 = arg(&args, "--seed").and_then(|s| s.parse().ok()).unwrap_or(0);
    let out = arg(&args, "--out").unwrap_or_else(|| format!("/dev/stdout"));
    install_panic_hook();
    let mut rep = Rep::new(&prop, &tier, seed);
    if !props::run(&prop, &mut rep, &args) {
        eprintln!("unknown property {prop}");
        std::process::exit(2);
    }
    rep.write(&out);
    eprintln!(
        "[vh] {} tier={} seed={} evaluations={} distinct={} violations={} inconclusive={} wall={:.1}s",
        prop,
        tier,
        seed,
        rep.evaluations,
        rep.strata.len(),
        rep.violations.len(),
        rep.inconclusive.values().sum::<u64>(),
        rep.t0.elapsed().as_secs_f64()
    );
}
