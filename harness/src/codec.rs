//! Independent encoder/decoder for zerokit's byte layouts, written from the documented layouts
//! (DESIGN.md Appendix A): 32-byte little-endian canonical field elements, u64-LE counts.
#![allow(dead_code)]

use crate::common::*;
use ark_bn254::Fr;
use num_bigint::BigUint;

pub fn enc_fr(x: &Fr) -> Vec<u8> {
    fr_le32(x).to_vec()
}

pub fn enc_u64(x: u64) -> Vec<u8> {
    x.to_le_bytes().to_vec()
}

pub fn enc_vec_fr(v: &[Fr]) -> Vec<u8> {
    let mut out = enc_u64(v.len() as u64);
    for x in v {
        out.extend_from_slice(&enc_fr(x));
    }
    out
}

pub fn enc_vec_u8(v: &[u8]) -> Vec<u8> {
    let mut out = enc_u64(v.len() as u64);
    out.extend_from_slice(v);
    out
}

pub fn enc_vec_usize(v: &[usize]) -> Vec<u8> {
    let mut out = enc_u64(v.len() as u64);
    for x in v {
        out.extend_from_slice(&enc_u64(*x as u64));
    }
    out
}

#[derive(Clone, Debug, PartialEq)]
pub struct Witness {
    pub secret: Fr,
    pub limit: Fr,
    pub msg_id: Fr,
    pub path: Vec<Fr>,
    pub bits: Vec<u8>,
    pub x: Fr,
    pub ext: Fr,
}

pub fn enc_witness(w: &Witness) -> Vec<u8> {
    let mut out = vec![];
    out.extend(enc_fr(&w.secret));
    out.extend(enc_fr(&w.limit));
    out.extend(enc_fr(&w.msg_id));
    out.extend(enc_vec_fr(&w.path));
    out.extend(enc_vec_u8(&w.bits));
    out.extend(enc_fr(&w.x));
    out.extend(enc_fr(&w.ext));
    out
}

#[derive(Clone, Debug, PartialEq)]
pub struct ProofValues {
    pub root: Fr,
    pub ext: Fr,
    pub x: Fr,
    pub y: Fr,
    pub nullifier: Fr,
}

pub fn enc_proof_values(v: &ProofValues) -> Vec<u8> {
    let mut out = vec![];
    for f in [&v.root, &v.ext, &v.x, &v.y, &v.nullifier] {
        out.extend(enc_fr(f));
    }
    out
}

pub fn enc_prove_request(secret: &Fr, index: u64, limit: &Fr, msg_id: &Fr, ext: &Fr, signal: &[u8]) -> Vec<u8> {
    let mut out = vec![];
    out.extend(enc_fr(secret));
    out.extend(enc_u64(index));
    out.extend(enc_fr(limit));
    out.extend(enc_fr(msg_id));
    out.extend(enc_fr(ext));
    out.extend(enc_u64(signal.len() as u64));
    out.extend_from_slice(signal);
    out
}

pub fn enc_verify_request(message: &[u8], signal: &[u8]) -> Vec<u8> {
    let mut out = message.to_vec();
    out.extend(enc_u64(signal.len() as u64));
    out.extend_from_slice(signal);
    out
}

// ---- strict decoders (return None on any deviation: short, trailing, non-canonical) ----------

pub struct Rd<'a> {
    pub b: &'a [u8],
    pub pos: usize,
}

impl<'a> Rd<'a> {
    pub fn new(b: &'a [u8]) -> Self {
        Rd { b, pos: 0 }
    }
    pub fn take(&mut self, n: usize) -> Option<&'a [u8]> {
        if self.pos.checked_add(n)? > self.b.len() {
            return None;
        }
        let s = &self.b[self.pos..self.pos + n];
        self.pos += n;
        Some(s)
    }
    pub fn u64(&mut self) -> Option<u64> {
        Some(u64::from_le_bytes(self.take(8)?.try_into().ok()?))
    }
    pub fn fr(&mut self) -> Option<Fr> {
        let s = self.take(32)?;
        let v = BigUint::from_bytes_le(s);
        if v >= p() {
            return None;
        }
        Some(big_to_fr(&v))
    }
    pub fn vec_fr(&mut self) -> Option<Vec<Fr>> {
        let n = self.u64()? as usize;
        if n > self.b.len() {
            return None;
        }
        (0..n).map(|_| self.fr()).collect()
    }
    pub fn vec_u8(&mut self) -> Option<Vec<u8>> {
        let n = self.u64()? as usize;
        Some(self.take(n)?.to_vec())
    }
    pub fn vec_usize(&mut self) -> Option<Vec<usize>> {
        let n = self.u64()? as usize;
        if n > self.b.len() {
            return None;
        }
        (0..n).map(|_| self.u64().map(|x| x as usize)).collect()
    }
    pub fn done(&self) -> bool {
        self.pos == self.b.len()
    }
}

pub fn dec_proof_values(b: &[u8]) -> Option<ProofValues> {
    let mut r = Rd::new(b);
    let v = ProofValues { root: r.fr()?, ext: r.fr()?, x: r.fr()?, y: r.fr()?, nullifier: r.fr()? };
    if r.done() {
        Some(v)
    } else {
        None
    }
}

/// message = 128-byte proof | proof values (160 bytes)
pub fn dec_message(b: &[u8]) -> Option<(Vec<u8>, ProofValues)> {
    if b.len() != 288 {
        return None;
    }
    Some((b[..128].to_vec(), dec_proof_values(&b[128..])?))
}

pub fn dec_witness(b: &[u8]) -> Option<Witness> {
    let mut r = Rd::new(b);
    let w = Witness {
        secret: r.fr()?,
        limit: r.fr()?,
        msg_id: r.fr()?,
        path: r.vec_fr()?,
        bits: r.vec_u8()?,
        x: r.fr()?,
        ext: r.fr()?,
    };
    if r.done() {
        Some(w)
    } else {
        None
    }
}

/// get_proof output: Vec<Fr> path elements | Vec<u8> direction bits
pub fn dec_merkle_proof(b: &[u8]) -> Option<(Vec<Fr>, Vec<u8>)> {
    let mut r = Rd::new(b);
    let p = r.vec_fr()?;
    let i = r.vec_u8()?;
    if r.done() {
        Some((p, i))
    } else {
        None
    }
}

pub fn dec_vec_usize(b: &[u8]) -> Option<Vec<usize>> {
    let mut r = Rd::new(b);
    let v = r.vec_usize()?;
    if r.done() {
        Some(v)
    } else {
        None
    }
}

pub fn dec_frs(b: &[u8], n: usize) -> Option<Vec<Fr>> {
    let mut r = Rd::new(b);
    let v: Option<Vec<Fr>> = (0..n).map(|_| r.fr()).collect();
    if r.done() {
        v
    } else {
        None
    }
}
